"""C01 -- acceptance; determinise / epsilon-removal / minimise / copy keep the
language and have the advertised shape."""
from ..engine import Prop, Layer
from ..gen import fa as G
from ..refs import nfa as R
from .. import observe as O


def words(alphabet, n, foreign="zz", nf=3):
    """All words over the alphabet of length <= n, plus all words of length
    <= nf containing the foreign symbol exactly once."""
    out = [tuple(w) for w in R.all_words(alphabet, n)]
    for w in R.all_words(alphabet, nf - 1):
        for i in range(len(w) + 1):
            out.append(tuple(w[:i]) + (foreign,) + tuple(w[i:]))
    return out


W4 = words(["a", "b"], 4)
W3 = words(["a", "b"], 3)
W2 = words(["a", "b"], 2, nf=2)
EPSW = [("epsilon",), ("a", "epsilon"), ("epsilon", "a", "b"), ("a", "epsilon", "epsilon", "b")]


def colliding_subsets(case, scheme, kind="join"):
    """Scope predicate of the merged-name finding: two distinct subsets that the
    subset construction reaches (with or without epsilon closure), or the two
    blocks of a partition of states, get the same merged name
    ';'.join(sorted(str(v)))."""
    n = case[0]
    nm = G.names(scheme, n)
    seen = {}
    for mask in range(1, 1 << n):
        name = ";".join(sorted(str(nm[i]) for i in range(n) if mask >> i & 1))
        seen.setdefault(name, []).append(mask)
    return any(len(v) > 1 for v in seen.values())


def shape_deterministic(x):
    """x: extracted NFA of a result advertised as deterministic."""
    if len(x.starts) > 1:
        return "several start states"
    if x.eps:
        return "epsilon edge"
    if any(len(Q) > 1 for Q in x.delta.values()):
        return "two successors"
    return None


def cycle5(stride):
    """DFAs on 5 states: a is the cycle i -> i+1 mod 5, b any partial function, any final set (see c02): large enough
    for Hopcroft's worklist to split a pending class"""
    from .c02 import cycle_dfa_cases, dfa_case
    for k, c in enumerate(cycle_dfa_cases(5, True)):
        if k % stride == 0:
            yield dfa_case(c)


class C01(Prop):
    ID = "C01"
    RULE = ("every automaton of FA(n,k,t) modulo renaming, built as epsilon-NFA and, when valid, as NFA and DFA "
            "(add_* calls and constructor arguments; epsilon cases also offered to the NFA class, which must refuse or obey), under each order policy x naming scheme; "
            "non-trivial = language neither empty nor only-epsilon")
    BOUNDS = "n<=3; words: all of length <=4 over {a,b} + one foreign symbol; language equalities exact"
    CLAUSES = ["C01.accepts", "C01.accepts.epsilon_spelling", "C01.<op>.lang", "C01.<op>.accepts", "C01.<op>.shape",
               "C01.copy.distinct", "C01.*.terminates", "C01.*.no_foreign_exception"]
    ASSUMPTIONS = ["any hashable value is represented by the naming schemes int/str/mixed/merged/reserved",
                   "orders: natural + salted global orders"]
    HORIZON = 10.0
    OPS = ["to_deterministic", "remove_epsilon_transitions", "minimize", "copy"]

    TIER = "quick"

    def layers(self, tier, seed):
        self.TIER = tier
        adv = ["natural@mixed", "natural@merged", "natural@reserved", "1@merged", "2@mixed", "natural@quoted", "1@quoted"]
        if tier == "quick":
            adv = ["natural@mixed", "natural@merged", "1@reserved", "natural@quoted"]
            return [Layer("FA(2,2,<=12)", lambda: G.fa_cases(2, 2, 0, 12), rep=G.is_rep),
                    Layer("FA(3,2,<=3)", lambda: G.fa_cases(3, 2, 0, 3), rep=G.is_rep),
                    Layer("cycle DFAs n=5 (partial b, every 21st)", lambda: cycle5(21), policies=["natural@str", "1@str"]),
                    Layer("FA(3,2,<=2)/adversarial-names", lambda: G.fa_cases(3, 2, 0, 2), rep=None, policies=adv),
                    Layer("FA(2,2,<=3)/adversarial-names", lambda: G.fa_cases(2, 2, 0, 3), rep=None, policies=adv)]
        few = ["natural@int", "natural@str", "1@int", "2@str", "s%d@int" % seed]
        adv4 = ["natural@mixed", "natural@merged", "natural@reserved", "natural@quoted", "1@merged"]
        return [Layer("FA(2,2,<=12)", lambda: G.fa_cases(2, 2, 0, 12), rep=G.is_rep_states),
                Layer("FA(3,2,<=3)", lambda: G.fa_cases(3, 2, 0, 3), rep=G.is_rep_states),
                Layer("FA(3,2,4)", lambda: G.fa_cases(3, 2, 4, 4), rep=G.is_rep, policies=few),
                Layer("FA(3,1,<=6)", lambda: G.fa_cases(3, 1, 0, 6), rep=G.is_rep, policies=few[:2]),
                Layer("FA(4,1,<=3)", lambda: G.fa_cases(4, 1, 0, 3), rep=G.is_rep, policies=few[:3]),
                Layer("cycle DFAs n=5 (partial b)", lambda: cycle5(1), policies=["natural@int", "1@str"]),
                Layer("FA(3,2,<=3)/adversarial-names", lambda: G.fa_cases(3, 2, 0, 3), rep=None, policies=adv4),
                Layer("FA(2,2,<=12)/adversarial-names", lambda: G.fa_cases(2, 2, 0, 12), rep=None, policies=adv)]

    def default_policies(self, tier, seed):
        if tier == "quick":
            return ["natural@int", "natural@str", "1@int", "2@str", "s%d@int" % seed]
        return ["natural@int", "natural@str"] + ["%d@%s" % (i, "int" if i % 2 else "str") for i in range(1, 7)] + \
               ["s%d@int" % (seed * 7 + 1), "s%d@str" % (seed * 7 + 2)]

    def reference(self, case):
        r = O.ref_from_case(case)
        return {"acc": {w: r.accepts(w) for w in W4}, "min": R.minimal_dfa(r, ["a", "b"])[0]}

    def outcome(self, case, ref):
        return (sum(ref["acc"].values()), ref["min"])

    def nontrivial(self, case, ref):
        return ref["min"] > 1

    def describe(self, case):
        return {"n": case[0], "symbols": case[1], "transitions": [list(t) for t in case[2]],
                "starts_mask": case[3], "finals_mask": case[4]}

    thaw = staticmethod(G.thaw)

    def script(self, case):
        n, k, trans, st, fi = case
        lines = ["from pyformlang.finite_automaton import EpsilonNFA", "e = EpsilonNFA()"]
        for p, s, q in trans:
            lines.append("e.add_transition(%d, %r, %d)" % (p, "epsilon" if s == 0 else G.SYMS[s], q))
        lines += ["e.add_start_state(%d)" % i for i in range(n) if st >> i & 1]
        lines += ["e.add_final_state(%d)" % i for i in range(n) if fi >> i & 1]
        return lines

    def check(self, case, ref, ctx):
        scheme = ctx.variant or "int"
        rnfa = O.ref_from_case(case, scheme)
        kind = O.case_kind(case)
        builds = [("enfa", "add"), ("enfa", "ctor"), ("enfa", "ctor_tf"), ("enfa", "ctor_tf_only"), ("enfa", "ctor_tf_partial"), ("enfa", "ctor_eps")]
        if kind in ("nfa", "dfa"):
            builds.append(("nfa", "add"))
        if kind == "dfa":
            builds += [("dfa", "add"), ("dfa", "ctor"), ("dfa", "ctor_tf_only"), ("dfa", "ctor_tf_partial")]
        if kind == "enfa":
            # the epsilon-free classes either refuse the 'epsilon' spelling (documented exception) or -- if they
            # let it through -- the automaton they hold must still answer per the property
            builds += [("nfa", "add"), ("nfa", "ctor"), ("nfa", "ctor_tf_only")]
        full = scheme in ("int",)
        for cls, via in builds:
            wl = W2
            if full and (cls, via) in (("enfa", "add"), ("dfa", "add")):
                wl = W4 if ctx.notes.get("tier") == "thorough" or self.TIER == "thorough" else W3
            tag = cls + "/" + via
            b = ctx.call(O.build_fa, case, cls, scheme, None, via)
            refusal = (O.lib().InvalidEpsilonTransition,) if kind == "enfa" and cls != "enfa" else ()
            if not ctx.returns(b, "C01.build", allowed=refusal, cls=tag):
                continue
            a = b.value
            # all words under one watchdog; word by word only when something went wrong (to name the word)
            batch = ctx.call(lambda: [a.accepts(list(w)) for w in wl])
            ctx.ops += len(wl) - 1
            if batch.ok and all(g is ref["acc"][w] for g, w in zip(batch.value, wl)):
                pass
            else:
                for w in wl:
                    r = ctx.call(a.accepts, list(w))
                    if ctx.returns(r, "C01.accepts", cls=tag, word=w):
                        if r.value is not ref["acc"][w]:
                            ctx.fail("C01.accepts", cls=tag, word=w, got=r.value, want=ref["acc"][w])
                            break
            if cls == "enfa" and via == "add":
                for w in EPSW:
                    want = ref["acc"][tuple(x for x in w if x != "epsilon")]
                    r = ctx.call(a.accepts, list(w))
                    if ctx.returns(r, "C01.accepts.epsilon_spelling", word=w):
                        ctx.expect(r.value is want, "C01.accepts.epsilon_spelling", word=w, got=r.value, want=want)
            if via == "ctor":
                continue
            for op in (self.OPS if via == "add" else ["to_deterministic", "minimize"]):
                r = ctx.call(getattr(a, op))
                clause = "C01." + op
                if not ctx.returns(r, clause, cls=tag):
                    continue
                res = r.value
                x = ctx.call(O.extract_fa, res)
                if not ctx.returns(x, clause + ".extract", cls=tag):
                    continue
                x = x.value
                w = R.distinguish(rnfa, x)
                if w is not None:
                    ctx.fail(clause + ".lang", cls=tag, witness=w, operand_accepts=rnfa.accepts(w),
                             result=x.describe())
                batch = ctx.call(lambda: [res.accepts(list(w)) for w in W2])
                ctx.ops += len(W2) - 1
                if not (batch.ok and all(g is ref["acc"][w] for g, w in zip(batch.value, W2))):
                    for w in W2:
                        rr = ctx.call(res.accepts, list(w))
                        if ctx.returns(rr, clause + ".accepts", cls=tag, word=w) and rr.value is not ref["acc"][w]:
                            ctx.fail(clause + ".accepts", cls=tag, word=w, got=rr.value, want=ref["acc"][w])
                            break
                if op in ("to_deterministic", "minimize"):
                    bad = shape_deterministic(x)
                    d = ctx.call(res.is_deterministic)
                    if bad or not (d.ok and d.value is True):
                        ctx.fail(clause + ".shape", cls=tag, why=bad or ("is_deterministic() -> " + d.describe()))
                elif op == "remove_epsilon_transitions":
                    ctx.expect(not x.eps, clause + ".shape", cls=tag, why="epsilon edge left")
                elif op == "copy":
                    ctx.expect(res is not a, "C01.copy.distinct", cls=tag)

    def _scope_merged(self, fail):
        variants = {p.partition("@")[2] for p in fail["policies"]}
        return variants <= {"mixed", "merged"} and all(colliding_subsets(fail["case"], v) for v in variants)

    @property
    def SCOPES(self):
        return {"merged_name_collision": self._scope_merged}


PROP = C01()
