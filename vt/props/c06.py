"""C06 -- automaton -> regular expression (state elimination) keeps the language."""
from ..engine import Prop, Layer
from ..gen import fa as G
from ..refs import nfa as R
from ..refs import regex as RX
from .. import observe as O
from .c01 import W2

SYMSETS = {"ab": ["a", "b"], "tok": ["ab", "c1"], "op": ["$", "+"]}     # op: whole symbols spelt like regex operators


class C06(Prop):
    ID = "C06"
    RULE = ("every epsilon-NFA of FA(n,{a,b},t) modulo renaming (all start/final sets incl. none, start=final, several "
            "starts), symbols plain tokens, under each order policy (elimination order follows set order); "
            "non-trivial = language has more than one word")
    BOUNDS = "n<=3 quick, n<=4 thorough; all language comparisons exact (product BFS)"
    CLAUSES = ["C06.to_regex", "C06.tree.lang", "C06.regex.accepts", "C06.roundtrip.lang", "C06.operand_unchanged",
               "C06.*.terminates", "C06.*.no_foreign_exception"]
    ASSUMPTIONS = ["symbol values restricted to alphanumeric tokens as the quantifier demands"]
    HORIZON = 10.0

    def layers(self, tier, seed):
        if tier == "quick":
            return [Layer("FA(2,2,<=12)", lambda: G.fa_cases(2, 2, 0, 12), rep=G.is_rep),
                    Layer("FA(3,2,<=3)", lambda: G.fa_cases(3, 2, 0, 3), rep=G.is_rep),
                    Layer("FA(3,2,<=2)/names:reserved", lambda: G.fa_cases(3, 2, 0, 2), rep=None,
                          policies=["natural@reserved2/ab", "1@reserved2/ab"]),
                    Layer("trim FA(4,2,5), start 0, final 3 (every 16th)", lambda: G.trim4_cases(5, 16),
                          policies=["natural@int/ab", "1@int/ab", "2@str/ab"]),
                    Layer("FA(3,2,<=2)/symbols spelt like operators", lambda: G.fa_cases(3, 2, 0, 2), rep=G.is_rep,
                          policies=["natural@int/op", "1@str/op"])]
        few = ["natural@int/ab", "1@str/tok", "2@int/ab", "s%d@str/ab" % seed]
        return [Layer("FA(2,2,<=12)", lambda: G.fa_cases(2, 2, 0, 12), rep=G.is_rep_states),
                Layer("FA(3,2,<=3)", lambda: G.fa_cases(3, 2, 0, 3), rep=G.is_rep_states),
                Layer("FA(3,2,4)", lambda: G.fa_cases(3, 2, 4, 4), rep=G.is_rep, policies=few),
                Layer("FA(3,1,<=6)", lambda: G.fa_cases(3, 1, 0, 6), rep=G.is_rep, policies=few),
                Layer("FA(4,1,<=4)", lambda: G.fa_cases(4, 1, 0, 4), rep=G.is_rep, policies=few),
                Layer("FA(4,2,<=3) single start", lambda: G.fa_cases(4, 2, 0, 3, single_start=True), rep=G.is_rep, policies=few[:2]),
                Layer("trim FA(4,2,5), start 0, final 3", lambda: G.trim4_cases(5, 1), policies=["natural@int/ab", "1@int/ab"]),
                Layer("trim FA(4,2,4), start 0, final 3", lambda: G.trim4_cases(4, 1), policies=few[:3]),
                Layer("FA(3,2,<=3)/names:reserved", lambda: G.fa_cases(3, 2, 0, 3), rep=None,
                      policies=["natural@reserved2/ab", "1@reserved2/ab"]),
                Layer("FA(3,2,<=3)/symbols spelt like operators", lambda: G.fa_cases(3, 2, 0, 3), rep=G.is_rep,
                      policies=["natural@int/op", "1@str/op", "2@int/op"])]

    def default_policies(self, tier, seed):
        if tier == "quick":
            return ["natural@int/ab", "natural@str/tok", "1@int/ab", "2@str/ab", "3@int/tok", "s%d@int/ab" % seed]
        return ["natural@int/ab", "natural@str/tok"] + \
               ["%d@%s/%s" % (i, "int" if i % 2 else "str", "ab" if i % 3 else "tok") for i in range(1, 13)] + \
               ["s%d@int/ab" % (seed * 7 + 1), "s%d@str/tok" % (seed * 7 + 2)]

    def reference(self, case):
        r = O.ref_from_case(case)
        return {"min": R.minimal_dfa(r, ["a", "b"])[0], "nwords": len(r.words_upto(3))}

    def outcome(self, case, ref):
        return (ref["min"], ref["nwords"])

    def nontrivial(self, case, ref):
        return ref["nwords"] > 1

    def describe(self, case):
        return {"n": case[0], "symbols": case[1], "transitions": [list(t) for t in case[2]],
                "starts_mask": case[3], "finals_mask": case[4]}

    thaw = staticmethod(G.thaw)

    def check(self, case, ref, ctx):
        scheme, _, symset = (ctx.variant or "int/ab").partition("/")
        sv = SYMSETS[symset or "ab"]
        rn = O.ref_from_case(case, scheme, sv)
        a = ctx.call(O.build_fa, case, "enfa", scheme, sv)
        if not ctx.returns(a, "C06.build"):
            return
        a = a.value
        before = O.extract_fa(a)
        r = ctx.call(a.to_regex)
        if not ctx.returns(r, "C06.to_regex"):
            return
        regex = r.value
        after = O.extract_fa(a)
        ctx.expect((before.trans, before.starts, before.finals, before.states) ==
                   (after.trans, after.starts, after.finals, after.states), "C06.operand_unchanged")
        t = ctx.call(RX.from_lib, regex)
        if ctx.returns(t, "C06.tree"):
            tn = RX.to_nfa(t.value)
            w = R.distinguish(rn, tn)
            if w is not None:
                ctx.fail("C06.tree.lang", witness=w, automaton_accepts=rn.accepts(w), regex=str(regex))
        words = [tuple(sv[{"a": 0, "b": 1}[x]] if x in ("a", "b") else x for x in w) for w in W2]
        for w in words:
            rr = ctx.call(regex.accepts, list(w))
            if ctx.returns(rr, "C06.regex.accepts", word=w) and rr.value is not rn.accepts(w):
                ctx.fail("C06.regex.accepts", word=w, got=rr.value, want=rn.accepts(w), regex=str(regex))
                break
        e = ctx.call(regex.to_epsilon_nfa)
        if ctx.returns(e, "C06.roundtrip"):
            x = ctx.call(O.extract_fa, e.value)
            if ctx.returns(x, "C06.roundtrip.extract"):
                w = R.distinguish(rn, x.value)
                if w is not None:
                    ctx.fail("C06.roundtrip.lang", witness=w, automaton_accepts=rn.accepts(w), regex=str(regex))


PROP = C06()
