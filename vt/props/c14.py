"""C14 -- LL(1): FIRST/FOLLOW, the LL(1) verdict and the table-driven parser."""
from ..engine import Layer, SKIP
from ..gen import cfg as G
from ..refs import ll1 as L1
from ..refs import tree as RT
from .. import observe as O
from .cfg_common import CFGProp, W4, word_map


def no_useless(r):
    """Quantifier precondition: every variable is generating and reachable, every terminal reachable."""
    if r.is_empty():
        return False
    useful = r.useful_variables()
    if set(r.variables) != useful:
        return False
    return r.reachable() >= set(r.terminals)


def conv_first(m, s):
    out = set()
    for x in s:
        if isinstance(x, m.Epsilon):
            out.add(L1.EPS)
        elif isinstance(x, m.Terminal):
            out.add(x.value)
        else:
            out.add("?" + repr(x))
    return out


def conv_follow(m, s):
    out = set()
    for x in s:
        if isinstance(x, str) and x == "$":
            out.add(L1.END)
        elif isinstance(x, m.Epsilon):
            out.add("?epsilon-in-follow")
        elif isinstance(x, m.Terminal):
            out.add(x.value)
        else:
            out.add("?" + repr(x))
    return out


class C14(CFGProp):
    ID = "C14"
    RULE = ("every grammar of CFG(v,t,b,p) modulo renaming whose symbols are all useful (quantifier precondition, enforced "
            "by the generator), built from its productions; FIRST/FOLLOW on variables, the LL(1) verdict, and for LL(1) "
            "grammars the parser on every word of length <=4 over {a,b} plus an unknown symbol (contains all proper "
            "prefixes and one-letter extensions of members); non-trivial = grammar is LL(1) with >= 2 words")
    BOUNDS = "v<=2 (3 thorough), bodies<=2 (3), productions<=4; words <=4"
    CLAUSES = ["C14.first", "C14.follow", "C14.is_llone_parsable", "C14.parse.accepts_members", "C14.parse.refuses_non_members",
               "C14.parse.exception_type", "C14.parse.tree_valid", "C14.*.terminates"]
    ASSUMPTIONS = ["FIRST/FOLLOW compared on variables only (the extra terminal keys the implementation keeps are not part of the statement)"]

    def layers(self, tier, seed):
        if tier == "quick":
            return [Layer("CFG(2,2,2,<=3)", lambda: G.cfg_cases(2, 2, 2, 0, 3), rep=G.is_rep),
                    Layer("CFG(2,2,3,<=2)", lambda: G.cfg_cases(2, 2, 3, 0, 2), rep=G.is_rep),
                    Layer("CFG(2,2,2,4)", lambda: G.cfg_cases(2, 2, 2, 4, 4), rep=G.is_rep,
                          policies=["natural@plain", "1@plain"]),
                    Layer("CFG(3,2,2,<=3)", lambda: G.cfg_cases(3, 2, 2, 0, 3), rep=G.is_rep,
                          policies=["natural@plain", "1@plain"]),
                    Layer("S -> x y z + short productions for A, B", G.long_body_cases, rep=G.is_rep,
                          policies=["natural@plain", "1@plain"]),
                    Layer("CFG(2,2,2,<=3)/names:dollar", lambda: G.cfg_cases(2, 2, 2, 0, 3), rep=None,
                          policies=["natural@dollar"])]
        few = ["natural@plain", "1@plain", "2@plain", "3@plain"]
        return [Layer("CFG(2,2,2,<=4)", lambda: G.cfg_cases(2, 2, 2, 0, 4), rep=G.is_rep),
                Layer("CFG(2,2,3,<=3)", lambda: G.cfg_cases(2, 2, 3, 0, 3), rep=G.is_rep, policies=few),
                Layer("CFG(3,2,2,<=3)", lambda: G.cfg_cases(3, 2, 2, 0, 3), rep=G.is_rep, policies=few),
                Layer("CFG(3,1,2,4)", lambda: G.cfg_cases(3, 1, 2, 4, 4), rep=G.is_rep, policies=few),
                Layer("S -> x y z + short productions for A, B", G.long_body_cases, rep=G.is_rep, policies=few),
                Layer("CFG(3,2,2,4)", lambda: G.cfg_cases(3, 2, 2, 4, 4), rep=G.is_rep, policies=few[:2]),
                Layer("CFG(2,2,2,5)", lambda: G.cfg_cases(2, 2, 2, 5, 5), rep=G.is_rep, policies=few[:2]),
                Layer("CFG(2,2,2,<=4)/names:dollar", lambda: G.cfg_cases(2, 2, 2, 0, 4), rep=None, policies=["natural@dollar", "1@dollar"])]

    def reference(self, case):
        r = self.ref_gram(case, "plain")
        if not no_useless(r):
            return SKIP
        first, follow = L1.first_sets(r), None
        follow = L1.follow_sets(r, first)
        ll1 = L1.is_ll1(r)
        return {"g": r, "first": first, "follow": follow, "ll1": ll1, "lang": r.lang_upto(4)}

    def outcome(self, case, ref):
        return (ref["ll1"], len(ref["lang"]), tuple(sorted(len(v) for v in ref["first"].values())),
                tuple(sorted(len(v) for v in ref["follow"].values())))

    def nontrivial(self, case, ref):
        return ref["ll1"] and len(ref["lang"]) >= 2

    def check(self, case, ref, ctx):
        m = O.cfgmod()
        from pyformlang.cfg.llone_parser import LLOneParser
        from pyformlang.cfg.cfg import NotParsableException
        scheme = ctx.variant or "plain"
        g = ctx.call(O.build_cfg, case, scheme, "prods")
        if not ctx.returns(g, "C14.build"):
            return
        g = g.value
        r = ref["g"]
        if scheme != "plain":
            # other spellings: the verdict and the parser only (FIRST/FOLLOW are compared under the plain names)
            r = self.ref_gram(case, scheme)
            to_s, _ = word_map(case, scheme)
            v = ctx.call(LLOneParser(g).is_llone_parsable)
            if ctx.returns(v, "C14.is_llone_parsable"):
                ctx.expect(v.value is ref["ll1"], "C14.is_llone_parsable", got=v.value, want=ref["ll1"])
            if ref["ll1"]:
                self._parse(ctx, m, LLOneParser(g), r, [(to_s(w), w in ref["lang"]) for w in W4], NotParsableException)
            return
        parser = LLOneParser(g)
        f = ctx.call(parser.get_first_set)
        if ctx.returns(f, "C14.first"):
            for X in r.variables:
                got = conv_first(m, f.value.get(m.Variable(X[1]), set()))
                ctx.expect(got == ref["first"][X], "C14.first", variable=X[1], got=sorted(got), want=sorted(ref["first"][X]))
        f = ctx.call(LLOneParser(g).get_follow_set)
        if ctx.returns(f, "C14.follow"):
            for X in r.variables:
                got = conv_follow(m, f.value.get(m.Variable(X[1]), set()))
                ctx.expect(got == ref["follow"][X], "C14.follow", variable=X[1], got=sorted(got), want=sorted(ref["follow"][X]))
        v = ctx.call(LLOneParser(g).is_llone_parsable)
        if ctx.returns(v, "C14.is_llone_parsable"):
            ctx.expect(v.value is ref["ll1"], "C14.is_llone_parsable", got=v.value, want=ref["ll1"])
        if not ref["ll1"]:
            return
        self._parse(ctx, m, LLOneParser(g), r, [(w, w in ref["lang"]) for w in W4], NotParsableException)
        # the same grammar given as a list that names every production twice, and what eliminate_unit_productions()
        # makes of a grammar without unit productions (the same grammar)
        variants = [("productions listed twice", lambda: O.build_cfg(case, "plain", "list2")),
                    ("productions listed twice (tuple)", lambda: O.build_cfg(case, "plain", "tuple2"))]
        if not any(len(b) == 1 and b[0] < case[0] for _, b in case[2]):
            variants.append(("eliminate_unit_productions()", lambda: O.build_cfg(case, "plain", "prods").eliminate_unit_productions()))
        if len(case[2]) == 2:
            # (once per two-production grammar; grammars with useless symbols, hence all smaller ones, are skipped)
            # the grammar without productions also exists as CFG() (no start symbol): nothing can be parsed
            bare = LLOneParser(m.CFG())
            self._parse(ctx, m, bare, r, [(w, False) for w in W4[:7]], NotParsableException, what="CFG()")
        for what, build in variants:
            g2 = ctx.call(build)
            if not ctx.returns(g2, "C14.build", what=what):
                continue
            v2 = ctx.call(LLOneParser(g2.value).is_llone_parsable)
            if ctx.returns(v2, "C14.is_llone_parsable", what=what):
                ctx.expect(v2.value is True, "C14.is_llone_parsable", what=what, got=v2.value, want=True)
            self._parse(ctx, m, LLOneParser(g2.value), r, [(w, w in ref["lang"]) for w in W4[:40]], NotParsableException, what=what)

    @staticmethod
    def _parse(ctx, m, parser, r, words, NotParsableException, **kw):
        for w, member in words:
            t = ctx.call(parser.get_llone_parse_tree, list(w))
            if t.kind == "timeout":
                ctx.fail("C14.parse.terminates", word=w, **kw)
                return
            if t.ok:
                if not member:
                    ctx.fail("C14.parse.refuses_non_members", word=w, got="a tree was returned", **kw)
                else:
                    why = RT.validate_tree(m, t.value, r, w)
                    ctx.expect(why is None, "C14.parse.tree_valid", word=w, why=why, **kw)
            elif isinstance(t.exc, NotParsableException):
                if member:
                    ctx.fail("C14.parse.accepts_members", word=w, got="NotParsableException", **kw)
            else:
                ctx.fail("C14.parse.exception_type", word=w, got=t.describe(), member=member, **kw)


PROP = C14()
