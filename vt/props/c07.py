"""C07 -- PythonRegex agrees with Python's re.fullmatch on the documented subset."""
import re

import warnings
warnings.filterwarnings("ignore", category=FutureWarning)
from ..engine import Prop, Layer
from ..gen import pyre as GP

STRINGS = GP.strings()


class C07(Prop):
    ID = "C07"
    RULE = ("every pattern generated from the documented subset: each of 53 atoms (literals, escaped metacharacters, ., "
            "\\d \\s \\w, sets/negated sets/ranges/metacharacters in sets) x 13 quantifiers; concatenation and alternation of "
            "all pairs of 6 atoms x 7 quantifiers; quantified groups of binary combinations and nested quantified groups; "
            "(thorough) a pruned depth-3 family; plus patterns Python rejects; each against all strings of length <=2 over "
            "a 16-letter printable alphabet (newline included) and <=4 over {a,b,0,-}; non-trivial = pattern with an operator or a set")
    BOUNDS = "pattern depth <= 2 (3 pruned, thorough); 593 strings per pattern"
    CLAUSES = ["C07.accepts", "C07.construct", "C07.rejects_invalid", "C07.*.terminates"]
    ASSUMPTIONS = ["CPython's re module is the oracle (the property's own)"]
    HORIZON = 30.0
    CHUNK = 8

    @staticmethod
    def cases(gen):
        for node in gen():
            yield ("pat", node)

    def layers(self, tier, seed):
        nat = ["natural"]
        if tier == "quick":
            return [Layer("level1 atoms x quantifiers", lambda: self.cases(GP.level1), policies=nat),
                    Layer("level2 binary (4 atoms x 5 quantifiers)", lambda: self.cases(lambda: GP.level2(4, 5)), policies=nat),
                    Layer("level2 groups (3 atoms)", lambda: self.cases(lambda: GP.level2_groups(3)), policies=nat),
                    Layer("nested groups", lambda: self.cases(GP.nested_groups), policies=nat),
                    Layer("ordered pairs of set atoms built in one process", GP.set_pairs, policies=nat),
                    Layer("stray bracket, then a set", lambda: self.cases(GP.stray_then_set), policies=nat),
                    Layer("invalid patterns", lambda: (("bad", p) for p in GP.INVALID), policies=nat)]
        ls = [Layer("level1 atoms x quantifiers", lambda: self.cases(GP.level1), policies=nat),
              Layer("level2 binary", lambda: self.cases(GP.level2), policies=nat),
              Layer("level2 groups", lambda: self.cases(GP.level2_groups), policies=nat),
              Layer("nested groups", lambda: self.cases(GP.nested_groups), policies=nat),
              Layer("ordered pairs of set atoms built in one process", GP.set_pairs, policies=nat),
              Layer("stray bracket, then a set", lambda: self.cases(GP.stray_then_set), policies=nat),
              Layer("invalid patterns", lambda: (("bad", p) for p in GP.INVALID), policies=nat),
              Layer("level3 pruned", lambda: self.cases(GP.level3), policies=nat)]
        return ls

    def pattern(self, case):
        if case[0] == "seq":
            return case[1][1]
        return case[1] if case[0] == "bad" else GP.text(self.thaw_node(case[1]))

    @classmethod
    def thaw_node(cls, n):
        return tuple(cls.thaw_node(x) if isinstance(x, (list, tuple)) else x for x in n)

    def thaw(self, case):
        if case[0] == "seq":
            return ("seq", tuple(case[1]))
        return (case[0], self.thaw_node(case[1]) if case[0] == "pat" else case[1])

    def reference(self, case):
        p = self.pattern(case)
        try:
            c = re.compile(p)
        except re.error as e:
            return {"valid": False, "p": p, "err": str(e)}
        return {"valid": True, "p": p, "acc": frozenset(s for s in STRINGS if c.fullmatch(s) is not None)}

    def outcome(self, case, ref):
        return (ref["valid"], len(ref.get("acc", ())), hash(ref.get("acc")) & 0xffff)

    def nontrivial(self, case, ref):
        return ref["valid"] and case[0] in ("pat", "seq") and case[1][0] != "atom"

    def describe(self, case):
        return {"pattern": self.pattern(case), "built before": case[1][0] if case[0] == "seq" else None}

    def script(self, case):
        return ["from pyformlang.regular_expression import PythonRegex", "r = PythonRegex(%r)" % self.pattern(case)]

    def check(self, case, ref, ctx):
        from pyformlang.regular_expression import PythonRegex
        p = ref["p"]
        if case[0] == "seq":
            # the first pattern is built (and used) before the one that is checked
            first = ctx.call(PythonRegex, case[1][0])
            if first.ok:
                ctx.call(first.value.accepts, "a")
        r = ctx.call(PythonRegex, p)
        if r.kind == "timeout":
            ctx.fail("C07.construct.terminates", pattern=p)
            return
        if not ref["valid"]:
            ctx.expect(not r.ok, "C07.rejects_invalid", pattern=p, python_says=ref["err"])
            return
        if case[0] == "bad":
            # listed as invalid but CPython accepts it: harness input error, not a violation
            raise AssertionError("pattern %r is accepted by re" % p)
        if not r.ok:
            ctx.fail("C07.construct", pattern=p, got=r.describe())
            return
        rg = r.value
        wrong = []
        for s in STRINGS:
            a = ctx.call(rg.accepts, s)
            if not a.ok:
                ctx.fail("C07.accepts", pattern=p, string=s, got=a.describe())
                return
            if a.value is not (s in ref["acc"]):
                wrong.append(s)
        if wrong:
            ctx.fail("C07.accepts", pattern=p, n_wrong=len(wrong), strings=wrong[:4],
                     python_matches=[s in ref["acc"] for s in wrong[:4]])

    # known-finding scopes (on the pattern AST)
    @property
    def SCOPES(self):
        return {"zero_min_repetition": lambda f: f["case"][0] == "pat" and GP.has_zero_min(self.thaw_node(f["case"][1]))}


PROP = C07()
