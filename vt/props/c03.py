"""C03 -- Boolean and rational operations compute the set-theoretic result."""
from ..engine import Prop, Layer
from ..gen import fa as G
from ..refs import nfa as R
from ..refs.nfa import NFA, EPS
from .. import observe as O
from .c01 import W2
from .c02 import pool

UN_POOLS = {"U2": lambda: G.fa_cases(2, 2, 0, 12), "U3": lambda: G.fa_cases(3, 2, 0, 3), "U3_2": lambda: G.fa_cases(3, 2, 0, 2),
            "U3_4": lambda: G.fa_cases(3, 2, 4, 4), "U41": lambda: G.fa_cases(4, 1, 0, 3)}


def ref_concat(A, B):
    n = NFA([("A", p) for p in A.states] + [("B", q) for q in B.states],
            [("A", p) for p in A.starts], [("B", q) for q in B.finals],
            [(("A", p), a, ("A", q)) for p, a, q in A.trans] + [(("B", p), a, ("B", q)) for p, a, q in B.trans])
    for f in A.finals:
        for s in B.starts:
            n.add(("A", f), EPS, ("B", s))
    return n


def ref_union(A, B):
    return NFA([("A", p) for p in A.states] + [("B", q) for q in B.states],
               [("A", p) for p in A.starts] + [("B", q) for q in B.starts],
               [("A", p) for p in A.finals] + [("B", q) for q in B.finals],
               [(("A", p), a, ("A", q)) for p, a, q in A.trans] + [(("B", p), a, ("B", q)) for p, a, q in B.trans])


def ref_star(A):
    n = NFA([("A", p) for p in A.states] + ["S"], ["S"], ["S"], [(("A", p), a, ("A", q)) for p, a, q in A.trans])
    for s in A.starts:
        n.add("S", EPS, ("A", s))
    for f in A.finals:
        n.add(("A", f), EPS, "S")
    return n


def snapshot(x):
    e = O.extract_fa(x)
    return (frozenset(e.trans), frozenset(e.starts), frozenset(e.finals), frozenset(e.states),
            frozenset(e.declared_alphabet))


class C03(Prop):
    ID = "C03"
    RULE = ("unary operations on every epsilon-NFA of FA(n,{a,b},t) modulo renaming; binary operations on ordered pairs "
            "from the iso-reduced pools P1=FA(2,2,<=1), P2=FA(2,2,<=2) with the second operand over {a,b} or {b,c}, state "
            "names shared between operands or chosen so that two different state pairs have one spelling, and a op a on the same object; non-trivial = result language non-empty")
    BOUNDS = "operands <= 3 states; every comparison exact (product BFS over subset automata)"
    CLAUSES = ["C03.complement.lang", "C03.intersection.lang", "C03.difference.lang", "C03.reverse.lang",
               "C03.union.lang", "C03.concatenate.lang", "C03.kleene_star.lang", "C03.<op>.operator_form",
               "C03.<op>.accepts", "C03.<op>.operands_unchanged", "C03.*.terminates", "C03.*.no_foreign_exception"]
    ASSUMPTIONS = ["union/concatenate/kleene_star are run on plain-token symbol values only (they go through to_regex)"]
    HORIZON = 10.0
    CHUNK = 100

    # ---- cases
    @staticmethod
    def un_cases(name):
        for c in UN_POOLS[name]():
            yield ("un", c)

    @staticmethod
    def bin_cases(group, pa, pb, symsb=("a", "b")):
        for i in range(len(pool(pa))):
            for j in range(len(pool(pb))):
                yield ("bin", group, pa, i, pb, j, list(symsb))

    def layers(self, tier, seed):
        two = ["natural@int", "1@str"]
        rep_un = lambda c: G.is_rep(c[1])
        rep_un_s = lambda c: G.is_rep_states(c[1])
        if tier == "quick":
            return [Layer("unary FA(2,2,<=12)", lambda: self.un_cases("U2"), rep=rep_un),
                    Layer("unary FA(3,2,<=3)", lambda: self.un_cases("U3"), rep=rep_un),
                    Layer("unary FA(3,2,<=2)/names:reserved", lambda: self.un_cases("U3_2"), rep=None,
                          policies=["natural@reserved2", "1@reserved2"]),
                    Layer("boolean P2xP1", lambda: self.bin_cases("bool", "P2", "P1")),
                    Layer("boolean P1xP2{b,c}", lambda: self.bin_cases("bool", "P1", "P2", ("b", "c"))),
                    Layer("boolean P2xP2 (every 5th pair)",
                          lambda: (c for k, c in enumerate(self.bin_cases("bool", "P2", "P2")) if k % 5 == 0),
                          policies=["natural@int", "1@str", "2@int"]),
                    Layer("boolean P2xP1/names whose pair spellings coincide", lambda: self.bin_cases("bool", "P2", "P1"),
                          policies=["natural@pair", "natural@mixed"]),
                    Layer("rational P1xP1", lambda: self.bin_cases("rat", "P1", "P1"), policies=two),
                    Layer("rational P1xP1{b,c}", lambda: self.bin_cases("rat", "P1", "P1", ("b", "c")), policies=two),
                    Layer("rational P1xP1{$,+} (whole symbols spelt like regex operators)",
                          lambda: self.bin_cases("rat", "P1", "P1", ("$", "+")), policies=two[:1])]
        few = ["natural@int", "natural@str", "1@int", "2@str", "s%d@int" % seed]
        return [Layer("unary FA(2,2,<=12)", lambda: self.un_cases("U2"), rep=rep_un_s),
                Layer("unary FA(3,2,<=3)", lambda: self.un_cases("U3"), rep=rep_un_s),
                Layer("unary FA(3,2,4)", lambda: self.un_cases("U3_4"), rep=rep_un, policies=few),
                Layer("unary FA(4,1,<=3)", lambda: self.un_cases("U41"), rep=rep_un, policies=few[:3]),
                Layer("boolean P2xP2", lambda: self.bin_cases("bool", "P2", "P2"), policies=few[:3]),
                Layer("boolean P2xP2{b,c}", lambda: self.bin_cases("bool", "P2", "P2", ("b", "c")), policies=few[:2]),
                Layer("boolean P2xP2/names whose pair spellings coincide", lambda: self.bin_cases("bool", "P2", "P2"),
                      policies=["natural@pair", "natural@mixed", "1@pair"]),
                Layer("rational P2xP1", lambda: self.bin_cases("rat", "P2", "P1"), policies=few[:3]),
                Layer("rational P1xP2{b,c}", lambda: self.bin_cases("rat", "P1", "P2", ("b", "c")), policies=few[:3]),
                Layer("rational P1xP2{$,+} (whole symbols spelt like regex operators)",
                      lambda: self.bin_cases("rat", "P1", "P2", ("$", "+")), policies=few[:2])]

    def default_policies(self, tier, seed):
        if tier == "quick":
            return ["natural@int", "natural@str", "1@int", "2@str", "s%d@int" % seed]
        return ["natural@int", "natural@str"] + ["%d@%s" % (i, "int" if i % 2 else "str") for i in range(1, 6)] + \
               ["s%d@int" % (seed * 7 + 1)]

    def resolve(self, case):
        if case[0] == "un":
            return G.thaw(case[1]), None, None, None
        _, group, pa, i, pb, j, symsb = case
        return pool(pa)[i], pool(pb)[j], list(symsb), (pa == pb and i == j and list(symsb) == ["a", "b"])

    def reference(self, case):
        ca, cb, symsb, same = self.resolve(case)
        ra = O.ref_from_case(ca)
        if cb is None:
            return {"empty": ra.is_empty(), "n": len(ra.words_upto(3))}
        rb = O.ref_from_case(cb, "int", symsb)
        return {"empty": ra.is_empty() or rb.is_empty(), "n": (len(ra.words_upto(2)), len(rb.words_upto(2)))}

    def outcome(self, case, ref):
        return (ref["empty"], ref["n"])

    def nontrivial(self, case, ref):
        return not ref["empty"]

    def describe(self, case):
        ca, cb, symsb, same = self.resolve(case)
        d = {"case": list(case) if case[0] == "bin" else "un",
             "A": [ca[0], [list(t) for t in ca[2]], ca[3], ca[4]]}
        if cb is not None:
            d["B"] = [cb[0], [list(t) for t in cb[2]], cb[3], cb[4]]
            d["symbols_B"] = symsb
        return d

    def thaw(self, case):
        if case[0] == "un":
            return ("un", G.thaw(case[1]))
        return tuple(case)

    script = describe

    # ---- checking
    def _result(self, ctx, clause, res, witness_fn, words, want_fn, **kw):
        """res: Res of the operation; witness_fn(extracted) -> None or word."""
        if not ctx.returns(res, clause, **kw):
            return None
        x = ctx.call(O.extract_fa, res.value)
        if not ctx.returns(x, clause + ".extract", **kw):
            return None
        x = x.value
        w = witness_fn(x)
        if w is not None:
            ctx.fail(clause + ".lang", witness=w, result_accepts=x.accepts(w), result=x.describe(), **kw)
        if words:
            ctx.batch_equal(clause + ".accepts", lambda w: res.value.accepts(list(w)), words, lambda w: bool(want_fn(w)), **kw)
        return x

    def _same_lang(self, ctx, clause, res, x0):
        """operator form must give the same language as the method."""
        if not ctx.returns(res, clause):
            return
        x = ctx.call(O.extract_fa, res.value)
        if ctx.returns(x, clause + ".extract") and x0 is not None:
            w = R.distinguish(x0, x.value)
            ctx.expect(w is None, clause, witness=w)

    def _unary_typed(self, ctx, ca, ra, cls, scheme):
        """complement / reverse on an NFA- or DFA-typed operand; the operand must be untouched afterwards"""
        b = ctx.call(O.build_fa, ca, cls, scheme)
        if not ctx.returns(b, "C03.build", cls=cls):
            return
        b = b.value
        snap = snapshot(b)
        sigma = sorted(ra.alphabet)
        self._result(ctx, "C03.complement", ctx.call(b.get_complement),
                     lambda x: R.complement_witness(ra, x, sigma), [], None, cls=cls)
        rr = ra.reverse()
        self._result(ctx, "C03.reverse", ctx.call(b.reverse), lambda x: R.distinguish(rr, x), [], None, cls=cls)
        ctx.expect(snapshot(b) == snap, "C03.unary.operands_unchanged", cls=cls)
        w = R.distinguish(ra, O.extract_fa(b))
        ctx.expect(w is None, "C03.unary.operands_unchanged", cls=cls, witness=w)
        # the same operand given through the constructor, with the whole symbol set declared (symbols that label no
        # transition belong to the automaton's alphabet, hence to the complement's)
        sv = O.sym_values(ca[1])
        decl = sorted(sv.values())
        c = ctx.call(O.build_fa, ca, cls, scheme, None, "ctor")
        if ctx.returns(c, "C03.build", cls=cls, via="ctor"):
            self._result(ctx, "C03.complement", ctx.call(c.value.get_complement),
                         lambda x: R.complement_witness(ra, x, decl), [], None, cls=cls, via="ctor, all symbols declared")
            det = ctx.call(c.value.to_deterministic)
            if det.ok:
                # a DFA-typed operand made by the library: complement relative to the alphabet that object declares
                decl2 = sorted(O.extract_fa(det.value).declared_alphabet)
                self._result(ctx, "C03.complement", ctx.call(det.value.get_complement),
                             lambda x: R.complement_witness(ra, x, decl2), [], None, cls=cls,
                             via="ctor, all symbols declared, to_deterministic() first")
        inter = ctx.call(lambda: b & (-b))
        if ctx.returns(inter, "C03.intersection", cls=cls, what="a & -a"):
            ctx.expect(O.extract_fa(inter.value).is_empty(), "C03.intersection.lang", cls=cls, what="a & -a is not empty")

    def check(self, case, ref, ctx):
        scheme = ctx.variant or "int"
        ca, cb, symsb, same = self.resolve(case)
        scheme_b = scheme
        if scheme == "pair":
            scheme, scheme_b = "pairA", ("pairA" if same else "pairB")
        ra = O.ref_from_case(ca, scheme)
        a = ctx.call(O.build_fa, ca, "enfa", scheme)
        if not ctx.returns(a, "C03.build"):
            return
        a = a.value
        snap_a = snapshot(a)
        if cb is None:
            kind = O.case_kind(ca)
            for cls in ["enfa"] + (["nfa"] if kind in ("nfa", "dfa") else []) + (["dfa"] if kind == "dfa" else []):
                self._unary_typed(ctx, ca, ra, cls, scheme)
            sigma = sorted(ra.alphabet)
            x = self._result(ctx, "C03.complement", ctx.call(a.get_complement),
                             lambda x: R.complement_witness(ra, x, sigma),
                             [w for w in W2 if all(s in sigma for s in w)], lambda w: not ra.accepts(w))
            self._same_lang(ctx, "C03.complement.operator_form", ctx.call(lambda: -a), x)
            rr = ra.reverse()
            x = self._result(ctx, "C03.reverse", ctx.call(a.reverse), lambda x: R.distinguish(rr, x),
                             W2, lambda w: rr.accepts(w))
            self._same_lang(ctx, "C03.reverse.operator_form", ctx.call(lambda: ~a), x)
            rs = ref_star(ra)
            self._result(ctx, "C03.kleene_star", ctx.call(a.kleene_star), lambda x: R.distinguish(rs, x),
                         W2, lambda w: rs.accepts(w))
            ctx.expect(snapshot(a) == snap_a, "C03.unary.operands_unchanged")
            return
        group = case[1]
        rb = O.ref_from_case(cb, scheme_b, symsb)
        if same:
            b = a
        else:
            b = ctx.call(O.build_fa, cb, "enfa", scheme_b, symsb)
            if not ctx.returns(b, "C03.build"):
                return
            b = b.value
        snap_b = snapshot(b)
        words = W2 + [("c",), ("b", "c"), ("c", "b")]
        if group == "bool":
            x = self._result(ctx, "C03.intersection", ctx.call(a.get_intersection, b),
                             lambda x: R.distinguish_op(ra, rb, x, lambda p, q: p and q),
                             words, lambda w: ra.accepts(w) and rb.accepts(w))
            self._same_lang(ctx, "C03.intersection.operator_form", ctx.call(lambda: a & b), x)
            x = self._result(ctx, "C03.difference", ctx.call(a.get_difference, b),
                             lambda x: R.distinguish_op(ra, rb, x, lambda p, q: p and not q),
                             words, lambda w: ra.accepts(w) and not rb.accepts(w))
            self._same_lang(ctx, "C03.difference.operator_form", ctx.call(lambda: a - b), x)
        else:
            ru, rc = ref_union(ra, rb), ref_concat(ra, rb)
            self._result(ctx, "C03.union", ctx.call(a.union, b), lambda x: R.distinguish(ru, x),
                         words, lambda w: ru.accepts(w))
            self._result(ctx, "C03.concatenate", ctx.call(a.concatenate, b), lambda x: R.distinguish(rc, x),
                         words, lambda w: rc.accepts(w))
        ctx.expect(snapshot(a) == snap_a and snapshot(b) == snap_b, "C03.binary.operands_unchanged", group=group)


PROP = C03()
