"""C15 -- every parse tree / derivation handed out is a real derivation of the given word."""
from ..engine import Layer
from ..gen import cfg as G
from ..refs import ll1 as L1
from ..refs import tree as RT
from .. import observe as O
from .cfg_common import CFGProp, W4, W3
from .c14 import no_useless


def has_unit_cycle(r):
    unit = {}
    for h, b in r.prods:
        if len(b) == 1 and b[0][0] == "V":
            unit.setdefault(h, set()).add(b[0])
    for x in unit:
        seen, todo = set(), [x]
        while todo:
            y = todo.pop()
            for z in unit.get(y, ()):
                if z == x:
                    return True
                if z not in seen:
                    seen.add(z)
                    todo.append(z)
    return False


def recursive_at(r, left=True):
    """X =>+ X alpha (left) / alpha X (right) for some variable X; grammar without epsilon productions."""
    edge = {}
    for h, b in r.prods:
        if b:
            s = b[0] if left else b[-1]
            if s[0] == "V":
                edge.setdefault(h, set()).add(s)
    for x in edge:
        seen, todo = set(), [x]
        while todo:
            y = todo.pop()
            for z in edge.get(y, ()):
                if z == x:
                    return True
                if z not in seen:
                    seen.add(z)
                    todo.append(z)
    return False


# grammars (4-5 variables) in which a variable is nullable only indirectly and is requested a second time, at the same
# position, by a state that is predicted after its completion -- out of reach of the exhaustive layers
CATALOGUE = [(4, 2, ((0, (1, 4)), (0, (2,)), (2, (1, 5)), (1, (3, 3)), (3, ()))),          # S -> A a | B; B -> A b; A -> C C; C -> eps
             (4, 2, ((0, (2,)), (0, (1, 4)), (2, (1, 5)), (1, (3,)), (3, ()))),            # S -> B | A a; B -> A b; A -> C; C -> eps
             (4, 2, ((0, (1, 2)), (2, (1, 5)), (2, (4,)), (1, (3, 3)), (3, ()), (3, (4,)))),  # S -> A B; B -> A b | a; A -> C C; C -> eps | a
             (3, 2, ((0, (1, 3)), (0, (2,)), (2, (1, 4)), (1, (1, 1)), (1, ()))),          # S -> A a | B; B -> A b; A -> A A | eps
             (4, 2, ((0, (1, 0)), (0, (2,)), (2, (1, 5)), (1, (3,)), (3, ()), (0, (4,))))]    # S -> A S | B | a; B -> A b; A -> C; C -> eps


def fcfg_text(case):
    vn, tn = G.names(case)
    v, t, prods = case
    nm = list(vn) + list(tn)
    return "\n".join("%s -> %s" % (nm[h], " ".join(nm[s] for s in body) or "$") for h, body in prods)


class C15(CFGProp):
    ID = "C15"
    RULE = ("every grammar of CFG(v,t,b,p) modulo renaming (ambiguous grammars included) x every word of length <=4 "
            "over {a,b} plus an unknown symbol, through the four producers: get_cnf_parse_tree (non-empty words), "
            "LLOneParser (LL(1) grammars without useless symbols), RecursiveDecentParser left and right (no epsilon "
            "production, no unit cycle), FCFG.get_parse_tree (feature-free); non-trivial = L<=4 has >= 2 words")
    BOUNDS = "v<=2 (3 thorough), bodies<=2 (3), productions<=3 (4 thorough); words <=4"
    CLAUSES = ["C15.<producer>.tree_valid", "C15.<producer>.leftmost", "C15.<producer>.rightmost",
               "C15.<producer>.refusal_type", "C15.<producer>.terminates"]
    ASSUMPTIONS = ["the recursive-descent parser is run only on grammars without epsilon productions and unit cycles that "
                   "are not left- (right-) recursive in left (right) mode: on those the repository's own test documents "
                   "a RecursionError, i.e. they are outside 'documented to terminate'"]

    def layers(self, tier, seed):
        two = ["natural@plain", "1@plain"]
        cat = Layer("catalogue: indirectly nullable variable requested twice", lambda: iter(CATALOGUE),
                    policies=["natural@plain"] + ["%d@plain" % i for i in range(1, 12)])
        if tier == "quick":
            return [cat,
                    Layer("CFG(2,2,2,<=3)", lambda: G.cfg_cases(2, 2, 2, 0, 3), rep=G.is_rep,
                          policies=two + ["2@plain"]),
                    Layer("CFG(2,2,3,<=2)", lambda: G.cfg_cases(2, 2, 3, 0, 2), rep=G.is_rep, policies=two)]
        return [cat,
                Layer("CFG(2,2,2,<=3)", lambda: G.cfg_cases(2, 2, 2, 0, 3), rep=None, policies=two + ["2@plain", "3@plain"]),
                Layer("CFG(2,2,3,<=2)", lambda: G.cfg_cases(2, 2, 3, 0, 2), rep=None, policies=two),
                Layer("CFG(2,2,2,4)", lambda: G.cfg_cases(2, 2, 2, 4, 4), rep=G.is_rep, policies=two),
                Layer("CFG(3,2,2,<=3)", lambda: G.cfg_cases(3, 2, 2, 0, 3), rep=G.is_rep, policies=two),
                Layer("CFG(2,2,3,3) every 4th", lambda: (c for k, c in enumerate(G.cfg_cases(2, 2, 3, 3, 3)) if k % 4 == 0),
                      rep=G.is_rep, policies=two[:1])]

    def reference(self, case):
        r = self.ref_gram(case, "plain")
        eps_free = all(b for _, b in r.prods)
        return {"g": r, "lang": r.lang_upto(4),
                "ll1": no_useless(r) and L1.is_ll1(r),
                "rd": eps_free and not has_unit_cycle(r) and bool(r.prods),
                "lrec": recursive_at(r, True) if eps_free else None,
                "rrec": recursive_at(r, False) if eps_free else None}

    def outcome(self, case, ref):
        return (len(ref["lang"]), ref["ll1"], ref["rd"], ref["lrec"], ref["rrec"])

    def nontrivial(self, case, ref):
        return len(ref["lang"]) >= 2

    def _tree(self, ctx, m, name, t, gram, w, member, refusal, allow_recursion=False):
        """t: Res of a producer call."""
        if t.kind == "timeout":
            ctx.fail("C15.%s.terminates" % name, word=w)
            return False
        if not t.ok:
            if isinstance(t.exc, refusal):
                return True
            if allow_recursion and isinstance(t.exc, RecursionError):
                return True
            if not member:
                ctx.fail("C15.%s.refusal_type" % name, word=w, got=t.describe())
            return True
        tree = t.value
        why = RT.validate_tree(m, tree, gram, w)
        if why is not None:
            ctx.fail("C15.%s.tree_valid" % name, word=w, why=why, member=member)
            return True
        root = RT.sym_of(m, tree.value)
        for side, meth in (("leftmost", "get_leftmost_derivation"), ("rightmost", "get_rightmost_derivation")):
            d = ctx.call(getattr(tree, meth))
            if ctx.returns(d, "C15.%s.%s" % (name, side), word=w):
                why = RT.validate_derivation(m, d.value, gram, w, root, leftmost=(side == "leftmost"))
                ctx.expect(why is None, "C15.%s.%s" % (name, side), word=w, why=why,
                           derivation=repr(d.value)[:300])
            # the listing of every sub-tree (asked after the root's) and a second listing of the root
            for sub in list(tree.sons)[:3]:
                sw = RT.frontier(m, sub)
                d2 = ctx.call(getattr(sub, meth))
                if sw is not None and ctx.returns(d2, "C15.%s.%s" % (name, side), word=w, subtree=repr(sub.value)):
                    why = RT.validate_derivation(m, d2.value, gram, sw, RT.sym_of(m, sub.value), leftmost=(side == "leftmost")) \
                        if RT.sym_of(m, sub.value)[0] == "V" else None
                    ctx.expect(why is None, "C15.%s.%s" % (name, side), word=w, subtree=repr(sub.value), why=why,
                               derivation=repr(d2.value)[:300])
            d3 = ctx.call(getattr(tree, meth))
            if d.ok and d3.ok:
                ctx.expect(repr(d.value) == repr(d3.value), "C15.%s.%s" % (name, side), word=w, why="second listing differs")
        return True

    def check(self, case, ref, ctx):
        m = O.cfgmod()
        from pyformlang.cfg.cfg import NotParsableException
        from pyformlang.cfg.cyk_table import DerivationDoesNotExist
        from pyformlang.cfg.llone_parser import LLOneParser
        from pyformlang.cfg.recursive_decent_parser import RecursiveDecentParser
        from pyformlang.fcfg import FCFG
        r, lang = ref["g"], ref["lang"]
        # 1. CNF trees: the grammar being parsed is the normal form
        g = ctx.call(O.build_cfg, case, "plain", "full")
        if not ctx.returns(g, "C15.build"):
            return
        g = g.value
        nf = ctx.call(g.to_normal_form)
        if ctx.returns(nf, "C15.cnf.normal_form"):
            x = ctx.call(O.extract_cfg, nf.value)
            if ctx.returns(x, "C15.cnf.extract"):
                for w in W4:
                    if not w:
                        continue
                    t = ctx.call(g.get_cnf_parse_tree, list(w))
                    if not self._tree(ctx, m, "cnf", t, x.value, w, w in lang, DerivationDoesNotExist):
                        break
        # 2. LL(1)
        if ref["ll1"]:
            g2 = O.build_cfg(case, "plain", "prods")
            parser = LLOneParser(g2)
            for w in W4:
                t = ctx.call(parser.get_llone_parse_tree, list(w))
                if not self._tree(ctx, m, "llone", t, r, w, w in lang, NotParsableException):
                    break
        # 3. recursive descent, both directions
        if ref["rd"]:
            g3 = O.build_cfg(case, "plain", "full")
            parser = RecursiveDecentParser(g3)
            for left in (True, False):
                rec = ref["lrec"] if left else ref["rrec"]
                if rec:
                    # recursive in the expansion direction: the parser is documented (by the repository's own
                    # test_infinite_recursion) not to terminate normally -- outside the quantifier
                    continue
                for w in W3:
                    t = ctx.call(parser.get_parse_tree, list(w), left)
                    if not self._tree(ctx, m, "recursive_descent_" + ("left" if left else "right"), t, r, w,
                                      w in lang, NotParsableException, allow_recursion=bool(rec)):
                        break
        # 4. Earley (feature-free FCFG read from text)
        if r.prods:
            f = ctx.call(FCFG.from_text, fcfg_text(case))
            if ctx.returns(f, "C15.fcfg.from_text"):
                for w in W3:
                    t = ctx.call(f.value.get_parse_tree, list(w))
                    if not self._tree(ctx, m, "fcfg", t, r, w, w in lang, NotParsableException):
                        break


PROP = C15()
