"""C11 -- intersection with a regular language (CFG and PDA) is exact."""
from ..engine import Prop, Layer
from ..gen import cfg as GC
from ..gen import pda as GP
from ..gen import fa as GF
from ..refs import cfg as RC
from ..refs import nfa as RN
from ..refs import regex as RX
from .. import observe as O
from .c02 import pool as fa_pool

REGEXES = ["a", "b", "a b", "a|b", "a*", "(a|b)*", "a* b", "(a b)*", "$", "a b|b a", "(a|b) (a|b)", "b* a b*",
           "a a*", "(a|$) b", "c", "a|c", "(b|c)*", "epsilon|a a", "(a a)*", "a (b a)* b"]
_CFG = {}


def cfg_pool(name):
    if name not in _CFG:
        p = {"G1": (2, 2, 2, 0, 1), "G2": (2, 2, 2, 0, 2), "G3": (2, 2, 2, 0, 3)}[name]
        _CFG[name] = [c for c in GC.cfg_cases(*p) if GC.is_rep(c)]
    return _CFG[name]


_PDA = {}


def pda_pool(name):
    """PDAs with a non-empty final-state language, one representative modulo swapping a and b"""
    if name not in _PDA:
        t = {"D1": 1, "D2": 2}[name]
        out = []
        for c in GP.pda_cases(2, 2, 2, 0, t):
            if c[3] and GP.is_rep(c):
                out.append(c)
        if name == "D2":
            out = [c for c in out if O.ref_pda_from_case(c).lang_final_state(2)]
        _PDA[name] = out
    return _PDA[name]


def classes_of(fa_case):
    k = O.case_kind(fa_case)
    return ["enfa"] + (["nfa"] if k in ("nfa", "dfa") else []) + (["dfa"] if k == "dfa" else [])


class C11(Prop):
    ID = "C11"
    RULE = ("left operand: every grammar of the iso-reduced pool CFG(2,2,2,<=2) / every PDA of PDA(2,2,2,<=t) with final "
            "states; right operand: every automaton of the iso-reduced pool FA(2,{a,b},<=1) (thorough <=2) built as every "
            "class it is valid for (epsilon-NFA / NFA / DFA, incl. epsilon-NFAs that are deterministic), over {a,b} and "
            "over {b,c}, plus 20 regex texts; other operand types must raise NotImplementedError; "
            "non-trivial = the intersection is non-empty")
    BOUNDS = "grammars <= 2 variables / 2 productions, PDAs 2 states <= 2 transitions, automata 2 states; words <= 4 (CFG) / <= 3 (PDA)"
    CLAUSES = ["C11.cfg.lang", "C11.cfg.contains", "C11.pda.lang", "C11.type_error", "C11.operands_unchanged",
               "C11.*.terminates", "C11.*.no_foreign_exception"]
    ASSUMPTIONS = ["grammar languages compared on all words <= 4, PDA final-state languages on all words <= 3"]
    HORIZON = 10.0
    CHUNK = 50

    @staticmethod
    def cases(kind, lp, rp, symsets=(("a", "b"), ("b", "c")), lstep=1):
        left = cfg_pool(lp) if kind == "cfg" else pda_pool(lp)
        for i in range(0, len(left), lstep):
            for j, fc in enumerate(fa_pool(rp)):
                for cls in classes_of(fc):
                    for ss in symsets:
                        yield (kind, lp, i, "fa", rp, j, cls, list(ss))
            for k in range(len(REGEXES)):
                yield (kind, lp, i, "re", k)
            yield (kind, lp, i, "bad", 0)

    def layers(self, tier, seed):
        two = ["natural@int", "1@str"]
        if tier == "quick":
            return [Layer("CFG G2 x FA P1", lambda: self.cases("cfg", "G2", "P1"), policies=two + ["natural@mixed"]),
                    Layer("PDA D1 x FA P1", lambda: self.cases("pda", "D1", "P1"), policies=two + ["natural@mixed"]),
                    Layer("PDA D2/60 x FA P1", lambda: self.cases("pda", "D2", "P1", lstep=60), policies=two[:1])]
        three = two + ["2@int", "natural@mixed"]
        return [Layer("CFG G2 x FA P2 (every 2nd grammar)", lambda: self.cases("cfg", "G2", "P2", lstep=2), policies=two),
                Layer("CFG G3 x FA P1", lambda: self.cases("cfg", "G3", "P1"), policies=["natural@int", "natural@mixed"]),
                Layer("PDA D1 x FA P2", lambda: self.cases("pda", "D1", "P2"), policies=["1@str", "natural@mixed"]),
                Layer("PDA D2 x FA P1 (every 4th PDA)", lambda: self.cases("pda", "D2", "P1", lstep=4), policies=two)]

    # ---- resolution
    def left(self, case):
        return (cfg_pool(case[1]) if case[0] == "cfg" else pda_pool(case[1]))[case[2]]

    def right_ref(self, case):
        if case[3] == "fa":
            return O.ref_from_case(fa_pool(case[4])[case[5]], "int", case[7])
        if case[3] == "re":
            return RX.to_nfa(RX.parse(REGEXES[case[4]]))
        return None

    def reference(self, case):
        l = self.left(case)
        rr = self.right_ref(case)
        if case[0] == "cfg":
            n = 4
            ll = RC.from_case(l).lang_upto(n)
        else:
            n = 3
            ll = O.ref_pda_from_case(l).lang_final_state(n)
        if rr is None:
            return {"want": None, "n": n, "ll": ll}
        return {"want": {w for w in ll if rr.accepts(w)}, "n": n, "ll": ll}

    def outcome(self, case, ref):
        return (case[0], case[3], None if ref["want"] is None else tuple(sorted(ref["want"]))[:4], len(ref["ll"]))

    def nontrivial(self, case, ref):
        return bool(ref["want"])

    def describe(self, case):
        l = self.left(case)
        d = {"case": list(case), "left": GC.to_text(l) if case[0] == "cfg" else GP.describe(l)}
        if case[3] == "fa":
            fc = fa_pool(case[4])[case[5]]
            d["right"] = {"class": case[6], "symbols": case[7], "automaton": [fc[0], [list(t) for t in fc[2]], fc[3], fc[4]]}
        elif case[3] == "re":
            d["right"] = REGEXES[case[4]]
        return d

    script = describe

    def thaw(self, case):
        return tuple(case)

    def check(self, case, ref, ctx):
        scheme = ctx.variant or "int"
        from pyformlang.regular_expression import Regex
        l = self.left(case)
        lscheme = "mixedval" if scheme == "mixed" else "plain"      # values of different types with one spelling
        if case[0] == "cfg":
            left = ctx.call(O.build_cfg, l, lscheme, "full")
        else:
            left = ctx.call(O.build_pda, l, lscheme)
        if not ctx.returns(left, "C11.build.left"):
            return
        left = left.value
        snap_l = (O.extract_cfg(left).prods if case[0] == "cfg" else O.extract_pda(left).trans)
        if case[3] == "bad":
            for bad in (3, "a", None, O.build_cfg(l, "plain") if case[0] == "cfg" else O.build_pda(l, "plain")):
                r = ctx.call(left.intersection, bad)
                if r.ok or not isinstance(r.exc, NotImplementedError):
                    ctx.fail("C11.type_error", operand=type(bad).__name__, got=r.describe())
            return
        if case[3] == "fa":
            right = ctx.call(O.build_fa, fa_pool(case[4])[case[5]], case[6], scheme, case[7])
        else:
            right = ctx.call(Regex, REGEXES[case[4]])
        if not ctx.returns(right, "C11.build.right"):
            return
        right = right.value
        snap_r = O.extract_fa(right).trans if case[3] == "fa" else None
        n, want = ref["n"], ref["want"]
        for form, call in (("method", lambda: left.intersection(right)), ("operator", lambda: left & right)):
            r = ctx.call(call)
            if not ctx.returns(r, "C11.%s.intersection" % case[0], form=form):
                continue
            if case[0] == "cfg":
                x = ctx.call(O.extract_cfg, r.value)
                if ctx.returns(x, "C11.cfg.extract"):
                    got = x.value.lang_upto(n)
                    if got != want:
                        ctx.fail("C11.cfg.lang", form=form, missing=sorted(want - got)[:3], extra=sorted(got - want)[:3])
                if form == "method":
                    for w in sorted(ref["ll"] | want | {(), ("a",), ("b",), ("c",)})[:12]:
                        c = ctx.call(r.value.contains, list(w))
                        if not ctx.returns(c, "C11.cfg.contains", word=w):
                            break
                        if c.value is not (w in want):
                            ctx.fail("C11.cfg.contains", word=w, got=c.value, want=w in want)
                            break
            else:
                x = ctx.call(O.extract_pda, r.value)
                if ctx.returns(x, "C11.pda.extract"):
                    got = x.value.lang_final_state(n)
                    if got != want:
                        ctx.fail("C11.pda.lang", form=form, missing=sorted(want - got)[:3], extra=sorted(got - want)[:3],
                                 result=x.value.describe())
        if case[0] == "cfg":
            # the grammar (and whatever it caches) must be unaffected: intersecting it with everything gives it back
            r = ctx.call(left.intersection, Regex("(a|b|c)*"))
            if ctx.returns(r, "C11.cfg.intersection", what="with (a|b|c)* afterwards"):
                x = ctx.call(O.extract_cfg, r.value)
                if ctx.returns(x, "C11.cfg.extract"):
                    got = x.value.lang_upto(n)
                    if got != ref["ll"]:
                        ctx.fail("C11.operands_unchanged", what="L(g & (a|b|c)*) after the intersection differs from L(g)",
                                 missing=sorted(ref["ll"] - got)[:3], extra=sorted(got - ref["ll"])[:3])
        if case[3] == "fa" and case[6] == "dfa":
            # State objects kept by the caller and used for two automata: a decoy over the last state only is
            # intersected first, then the operand itself is rebuilt around the same State objects (states declared
            # by value, transitions given with the shared objects)
            m = O.lib()
            from ..gen import fa as GFA
            n_, k_, trans_, st_, fi_ = fa_pool(case[4])[case[5]]
            nm = GFA.names(scheme, n_)
            sv = O.sym_values(k_, case[7])
            pool = {i: m.State(nm[i]) for i in range(n_)}
            decoy = m.DeterministicFiniteAutomaton()
            decoy.add_start_state(pool[n_ - 1])
            decoy.add_final_state(pool[n_ - 1])
            decoy.add_transition(pool[n_ - 1], sv[1], pool[n_ - 1])
            ctx.call(left.intersection, decoy)
            right2 = m.DeterministicFiniteAutomaton(states=set(nm))
            for i in range(n_):
                if st_ >> i & 1:
                    right2.add_start_state(pool[i])
                if fi_ >> i & 1:
                    right2.add_final_state(pool[i])
            for p_, s_, q_ in trans_:
                right2.add_transition(pool[p_], sv[s_], pool[q_])
            r = ctx.call(left.intersection, right2)
            if ctx.returns(r, "C11.%s.intersection" % case[0], form="operand sharing State objects with an earlier operand"):
                if case[0] == "cfg":
                    got = O.extract_cfg(r.value).lang_upto(n)
                else:
                    got = O.extract_pda(r.value).lang_final_state(n)
                if got != want:
                    ctx.fail("C11.%s.lang" % case[0], form="operand sharing State objects with an earlier operand",
                             missing=sorted(want - got)[:3], extra=sorted(got - want)[:3])
        if case[0] == "cfg" and not want:
            # an empty intersection intersected again (the library hands out CFG(), a grammar without start symbol,
            # for some empty results): (g & r) & r' must be an empty grammar too
            first = ctx.call(left.intersection, right)
            if first.ok:
                again = ctx.call(first.value.intersection, Regex("(a|b|c)*"))
                if ctx.returns(again, "C11.cfg.intersection", what="(g & r) & (a|b|c)* on an empty g & r"):
                    # ("empty" above means: no word up to the bound; the grammars may still generate longer words, so
                    # the exact verdicts of the two results are compared with each other and the words up to the bound
                    # with the reference)
                    e0 = ctx.call(first.value.is_empty)
                    e = ctx.call(again.value.is_empty)
                    ctx.expect(e.ok and e0.ok and e.value is e0.value, "C11.cfg.lang",
                               what="(g & r) & (a|b|c)* on an empty g & r", got=e.describe(), first=e0.describe())
                    x2 = ctx.call(O.extract_cfg, again.value)
                    if x2.ok:
                        ctx.expect(not x2.value.lang_upto(n), "C11.cfg.lang", what="(g & r) & (a|b|c)* on an empty g & r",
                                   got="words up to the bound")
        if case[0] == "pda" and not want:
            # an empty intersection used again (the library hands out PDA(), without start state, for some of them)
            first = ctx.call(left.intersection, right)
            if first.ok:
                for what, fn in (("(p & r) & (a|b|c)*", lambda: O.extract_pda(first.value.intersection(Regex("(a|b|c)*"))).lang_final_state(n)),
                                 ("(p & r).to_empty_stack().to_cfg()", lambda: O.extract_cfg(first.value.to_empty_stack().to_cfg()).lang_upto(n)),
                                 ("(p & r).to_final_state()", lambda: O.extract_pda(first.value.to_final_state()).lang_final_state(n) and set()),
                                 ("(p & r).to_cfg()", lambda: first.value.to_cfg() and None)):
                    again = ctx.call(fn)
                    if ctx.returns(again, "C11.pda.intersection", what=what + " on an empty p & r"):
                        ctx.expect(not again.value, "C11.pda.lang", what=what + " on an empty p & r", got=repr(again.value)[:200])
        snap_l2 = (O.extract_cfg(left).prods if case[0] == "cfg" else O.extract_pda(left).trans)
        ok = snap_l == snap_l2 and (snap_r is None or snap_r == O.extract_fa(right).trans)
        ctx.expect(ok, "C11.operands_unchanged")


PROP = C11()
