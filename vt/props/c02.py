"""C02 -- equivalence is decided exactly; minimisation is reduced and canonical."""
from ..engine import Prop, Layer, SKIP
from ..gen import fa as G
from ..refs import nfa as R
from ..refs.nfa import NFA, EPS
from .. import observe as O

_POOLS = {}


def sink_completed(case):
    """Same language, explicit sink state n with all missing (state, symbol)
    edges over {a,b} and its own loops."""
    n, k, trans, st, fi = case
    have = {(p, s) for p, s, q in trans}
    extra = [(p, s, n) for p in range(n) for s in range(1, k + 1) if (p, s) not in have]
    extra += [(n, s, n) for s in range(1, k + 1)]
    return (n + 1, k, tuple(sorted(set(trans) | set(extra))), st, fi)


def with_unreachable(case):
    """Same language, plus an unreachable final state n with an edge into 0."""
    n, k, trans, st, fi = case
    return (n + 1, k, tuple(sorted(set(trans) | {(n, 1, 0)})), st, fi | (1 << n))


def with_dead_tail(case):
    """Same language, plus a reachable dead state n entered by symbol k from every state without a k-edge."""
    n, k, trans, st, fi = case
    have = {(p, s) for p, s, q in trans}
    extra = [(p, k, n) for p in range(n) if (p, k) not in have]
    return (n + 1, k, tuple(sorted(set(trans) | set(extra))), st, fi)


VARIANTS = [("id", lambda c: c), ("sink", sink_completed), ("unreach", with_unreachable), ("dead", with_dead_tail)]


def pool(name):
    if name not in _POOLS:
        if name == "P1":
            base = [c for c in G.fa_cases(2, 2, 0, 1) if G.is_rep(c)]
        elif name == "P2":
            base = [c for c in G.fa_cases(2, 2, 0, 2) if G.is_rep(c)]
        elif name == "P3s":
            base = [c for c in G.fa_cases(3, 2, 0, 3, single_start=True) if G.is_rep(c)]
        elif name == "P21":   # one-letter alphabet, used against two-letter operands
            base = [c for c in G.fa_cases(2, 1, 0, 3) if G.is_rep(c)]
        else:
            raise KeyError(name)
        _POOLS[name] = base
    return _POOLS[name]


def colliding_spelling():
    """an integer k whose text str(k) falls into the same slot of a small hash table under the current hash seed: a
    set holding k and str(k) then iterates in insertion order, so two automata that introduce the two symbols in
    opposite orders hold equal symbol sets that iterate differently"""
    for k in range(1, 5000):
        if (hash(str(k)) ^ hash(k)) & 7 == 0:
            return k
    return 7


def pair_cases(pa, pb, symsb=("a", "b"), symsa=("a", "b")):
    na, nb = len(pool(pa)), len(pool(pb))
    for i in range(na):
        for j in range(nb):
            yield ("pair", pa, i, pb, j, list(symsb), list(symsa))


def variant_cases(p):
    for i in range(len(pool(p))):
        for u in range(len(VARIANTS)):
            for v in range(len(VARIANTS)):
                yield ("var", p, i, u, v)


def cycle_dfa_cases(n, partial=False):
    """Complete DFAs on states 0..n-1: symbol a is the cycle i -> i+1 mod n, symbol b any function (with partial=True
    b may also be undefined), any set of final states, start state 0.  Large enough for Hopcroft's worklist to
    split a class that is still pending."""
    from itertools import product
    rng = range(-1, n) if partial else range(n)
    for f in product(rng, repeat=n):
        for fi in range(1 << n):
            yield ("dfa", n, list(f), fi)


def dfa_case(case):
    _, n, f, fi = case
    trans = [(i, 1, (i + 1) % n) for i in range(n)] + [(i, 2, f[i]) for i in range(n) if f[i] >= 0]
    return (n, 2, tuple(sorted(trans)), 1, fi)


def resolve(case):
    """-> (caseA, symvalsA, caseB, symvalsB)"""
    if case[0] == "dfa":
        c = dfa_case(case)
        return c, None, c, None
    if case[0] == "pair":
        _, pa, i, pb, j, symsb, symsa = case
        return pool(pa)[i], list(symsa), pool(pb)[j], list(symsb)
    _, p, i, u, v = case
    c = pool(p)[i]
    return VARIANTS[u][1](c), None, VARIANTS[v][1](c), None


def isomorphic(x, y):
    """Lock-step isomorphism of two extracted deterministic automata (start
    to start, same symbols, same finality, bijection on states)."""
    if len(x.starts) != len(y.starts) or len(x.states) != len(y.states):
        return False
    if not x.starts:
        return not x.trans and not y.trans and len(x.states) == len(y.states)
    (sx,), (sy,) = tuple(x.starts), tuple(y.starts)
    f, g = {sx: sy}, {sy: sx}
    todo = [sx]
    while todo:
        p = todo.pop()
        q = f[p]
        if (p in x.finals) != (q in y.finals):
            return False
        ox = {a: next(iter(Q)) for (p0, a), Q in x.delta.items() if p0 == p and Q}
        oy = {a: next(iter(Q)) for (q0, a), Q in y.delta.items() if q0 == q and Q}
        if set(ox) != set(oy):
            return False
        for a, p2 in ox.items():
            q2 = oy[a]
            if p2 in f:
                if f[p2] != q2:
                    return False
            elif q2 in g:
                return False
            else:
                f[p2], g[q2] = q2, p2
                todo.append(p2)
    return len(f) == len(x.states)


def reduced_report(x):
    """Own analysis of an extracted DFA: unreachable states, and pairs of states
    that are not distinguishable (Moore refinement with an implicit dead state)."""
    reach = x.reachable()
    unreachable = [s for s in x.states if s not in reach]
    alphabet = sorted(x.alphabet, key=repr)
    DEAD = ("<dead>",)
    block = {s: (1 if s in x.finals else 0) for s in x.states}
    block[DEAD] = 0
    while True:
        sig = {}
        for s in x.states:
            sig[s] = (block[s],) + tuple(block[next(iter(x.delta.get((s, a), {DEAD})))] for a in alphabet)
        sig[DEAD] = (block[DEAD],) + tuple(block[DEAD] for _ in alphabet)
        ids, nb = {}, {}
        for s, sg in sig.items():
            nb[s] = ids.setdefault(sg, len(ids))
        stable = len(ids) == len(set(block.values()))
        block = nb
        if stable:
            break
    same = []
    sts = list(x.states)
    for i in range(len(sts)):
        for j in range(i + 1, len(sts)):
            if block[sts[i]] == block[sts[j]]:
                same.append((sts[i], sts[j]))
    return unreachable, same


class C02(Prop):
    ID = "C02"
    RULE = ("ordered pairs of automata: (i) all pairs from the iso-reduced pool FA(2,{a,b},<=t) incl. the second operand "
            "over {b,c} and {a} alphabets, (ii) differential pairs variant_u(X), variant_v(X) with variants identity / "
            "explicit sink / unreachable state / reachable dead state (same language by construction); every class "
            "combination the structures are valid for; non-trivial = the two languages are equal and non-empty, or differ")
    BOUNDS = "operands <= 3 states (4 with sink), 2-3 symbols; verdicts compared with an exact product-BFS equivalence"
    CLAUSES = ["C02.equiv", "C02.eq", "C02.minimize.lang", "C02.minimize.reachable", "C02.minimize.distinguishable",
               "C02.minimize.canonical", "C02.minimize.shape", "C02.*.terminates", "C02.*.no_foreign_exception"]
    ASSUMPTIONS = ["pairs beyond the listed pools are not explored"]
    HORIZON = 10.0
    CHUNK = 100

    def layers(self, tier, seed):
        if tier == "quick":
            return [Layer("pairs P1xP1", lambda: pair_cases("P1", "P1")),
                    Layer("pairs P1xP1{b,c}", lambda: pair_cases("P1", "P1", ("b", "c"))),
                    Layer("pairs P21xP1", lambda: pair_cases("P21", "P1")),
                    Layer("pairs P2xP2 mixed-type symbols", lambda: pair_cases("P2", "P2", (1, "x"), (1, "x")),
                          policies=["natural@int", "1@int"]),
                    Layer("pairs P2xP2 symbols with one spelling and two types, introduced in opposite orders (every 3rd)",
                          lambda: (c for k, c in enumerate(pair_cases("P2", "P2", (str(colliding_spelling()), colliding_spelling()),
                                                                     (colliding_spelling(), str(colliding_spelling())))) if k % 3 == 0),
                          policies=["natural@int", "1@int"]),
                    Layer("variants P2", lambda: variant_cases("P2")),
                    Layer("minimize: cycle DFAs n=4", lambda: cycle_dfa_cases(4), policies=["natural@int", "1@str", "2@int"]),
                    Layer("minimize: cycle DFAs n=5 (partial b, every 7th)",
                          lambda: (c for k, c in enumerate(cycle_dfa_cases(5, True)) if k % 7 == 0),
                          policies=["natural@int", "1@str"])]
        few = ["natural@int", "natural@str", "1@int", "2@str", "s%d@int" % seed]
        return [Layer("pairs P2xP2", lambda: pair_cases("P2", "P2"), policies=few),
                Layer("pairs P2xP1{b,c}", lambda: pair_cases("P2", "P1", ("b", "c")), policies=few),
                Layer("pairs P21xP2", lambda: pair_cases("P21", "P2"), policies=few),
                Layer("pairs P2xP21", lambda: pair_cases("P2", "P21"), policies=few),
                Layer("pairs P2xP2 mixed-type symbols", lambda: pair_cases("P2", "P2", (1, "x"), (1, "x")),
                      policies=["natural@int", "1@int"]),
                Layer("variants P2", lambda: variant_cases("P2")),
                Layer("pairs P2xP2 symbols with one spelling and two types, introduced in opposite orders",
                      lambda: pair_cases("P2", "P2", (str(colliding_spelling()), colliding_spelling()),
                                         (colliding_spelling(), str(colliding_spelling()))), policies=few[:3]),
                Layer("variants P3s", lambda: variant_cases("P3s"), policies=few),
                Layer("minimize: cycle DFAs n=4 (partial b)", lambda: cycle_dfa_cases(4, True), policies=few),
                Layer("minimize: cycle DFAs n=5", lambda: cycle_dfa_cases(5), policies=few[:3]),
                Layer("minimize: cycle DFAs n=5 (partial b)", lambda: cycle_dfa_cases(5, True), policies=few[:2])]

    def default_policies(self, tier, seed):
        if tier == "quick":
            return ["natural@int", "natural@str", "1@int", "2@str", "s%d@int" % seed]
        return ["natural@int", "natural@str"] + ["%d@%s" % (i, "int" if i % 2 else "str") for i in range(1, 9)] + \
               ["s%d@int" % (seed * 7 + 1), "s%d@str" % (seed * 7 + 2)]

    def reference(self, case):
        ca, sa, cb, sb = resolve(case)
        ra, rb = O.ref_from_case(ca, "int", sa), O.ref_from_case(cb, "int", sb)
        w = R.distinguish(ra, rb)
        return {"equal": w is None, "witness": w, "empty_a": ra.is_empty(), "empty_b": rb.is_empty(),
                "min_a": R.minimal_dfa(ra)[0], "min_b": R.minimal_dfa(rb)[0]}

    def outcome(self, case, ref):
        return (ref["equal"], ref["min_a"], ref["min_b"])

    def nontrivial(self, case, ref):
        return (not ref["equal"]) or not ref["empty_a"]

    def describe(self, case):
        ca, sa, cb, sb = resolve(case)
        return {"case": list(case), "A": [ca[0], [list(t) for t in ca[2]], ca[3], ca[4]],
                "B": [cb[0], [list(t) for t in cb[2]], cb[3], cb[4]], "symbols_B": sb or ["a", "b"]}

    def thaw(self, case):
        return tuple(case)

    def script(self, case):
        return self.describe(case)

    def check(self, case, ref, ctx):
        scheme = ctx.variant or "int"
        ca, sa, cb, sb = resolve(case)
        ka, kb = O.case_kind(ca), O.case_kind(cb)
        cla = ["enfa"] + ([ka] if ka != "enfa" else [])
        clb = ["enfa"] + ([kb] if kb != "enfa" else [])
        mins = {}
        if case[0] == "dfa":
            cla, clb = ["dfa"], ["enfa"]
        for x in cla:
            for y in clb:
                tag = x + "~" + y
                ba = ctx.call(O.build_fa, ca, x, scheme, sa)
                bb = ctx.call(O.build_fa, cb, y, scheme, sb)
                if not (ctx.returns(ba, "C02.build", side="A") and ctx.returns(bb, "C02.build", side="B")):
                    continue
                a, b = ba.value, bb.value
                r = ctx.call(a.is_equivalent_to, b)
                if ctx.returns(r, "C02.equiv", classes=tag):
                    ctx.expect(r.value is ref["equal"], "C02.equiv", classes=tag, got=r.value, want=ref["equal"],
                               witness=ref["witness"])
                r = ctx.call(lambda: a == b)
                if ctx.returns(r, "C02.eq", classes=tag):
                    ctx.expect(r.value is ref["equal"], "C02.eq", classes=tag, got=r.value, want=ref["equal"],
                               witness=ref["witness"])
                if case[0] in ("var", "dfa") or (case[0] == "pair" and case[2] == case[4]):
                    for side, obj, c, sv in (("A", a, ca, sa), ("B", b, cb, sb)):
                        key = (side, x if side == "A" else y)
                        if key in mins:
                            continue
                        mins[key] = self._minimize(ctx, obj, c, sv, scheme, key)
        if ref["equal"] and mins:
            got = [(k, v) for k, v in mins.items() if v is not None]
            for i in range(1, len(got)):
                if not isomorphic(got[0][1], got[i][1]):
                    ctx.fail("C02.minimize.canonical", first=got[0][0], second=got[i][0],
                             a=got[0][1].describe(), b=got[i][1].describe())
                    break

    def _minimize(self, ctx, obj, c, sv, scheme, key):
        r = ctx.call(obj.minimize)
        if not ctx.returns(r, "C02.minimize", which=key):
            return None
        x = ctx.call(O.extract_fa, r.value)
        if not ctx.returns(x, "C02.minimize.extract", which=key):
            return None
        x = x.value
        rn = O.ref_from_case(c, scheme, sv)
        w = R.distinguish(rn, x)
        if w is not None:
            ctx.fail("C02.minimize.lang", which=key, witness=w, result=x.describe())
        from .c01 import shape_deterministic
        bad = shape_deterministic(x)
        if bad:
            ctx.fail("C02.minimize.shape", which=key, why=bad)
            return None
        unreachable, same = reduced_report(x)
        if unreachable:
            ctx.fail("C02.minimize.reachable", which=key, unreachable=unreachable, result=x.describe())
        if same:
            ctx.fail("C02.minimize.distinguishable", which=key, pairs=same[:3], result=x.describe())
        return x


PROP = C02()
