"""C16 -- FST translation is the transduction relation; FST operations compose relations."""
from ..engine import Prop, Layer, SKIP
from ..gen import fst as GT
from ..gen import fa as GF
from ..refs import fst as RF
from ..refs import nfa as RN
from .. import observe as O

INPUTS = [tuple(w) for w in RN.all_words(["a", "b"], 3)] + [("z",), ("a", "z")]
INPUTS2 = [tuple(w) for w in RN.all_words(["a", "b"], 2)] + [("z",)]
_POOL = {}


def pool(name):
    if name not in _POOL:
        t = {"T1": 1, "T2": 2}[name]
        out = []
        for c in GT.fst_cases(2, 0, t):
            if GT.is_rep(c) and not O.ref_fst_from_case(c).has_writing_eps_cycle():
                out.append(c)
        _POOL[name] = out
    return _POOL[name]


class C16(Prop):
    ID = "C16"
    RULE = ("every transducer of FST(2 states, input {a,b,epsilon}, outputs {-,x,y,xy}, <= t transitions, any start and "
            "final sets) modulo renaming whose epsilon cycles write nothing; binary operations on all ordered pairs of the "
            "pool with <= 1 transition (thorough: <= 2 x <= 1) sharing state names (str and int) incl. the same object "
            "twice; to_fst on every epsilon-NFA of FA(2,{a,b},<=3); inputs: all words <= 3 over {a,b} plus a foreign "
            "symbol; non-trivial = some input is translated")
    BOUNDS = "2 states, <= 2 transitions (3 thorough); inputs <= 3; relations compared exactly per input"
    CLAUSES = ["C16.translate", "C16.union.relation", "C16.concatenate.relation", "C16.kleene_star.relation",
               "C16.to_fst.relation", "C16.<op>.translate", "C16.operands_unchanged", "C16.*.terminates",
               "C16.*.no_foreign_exception"]
    ASSUMPTIONS = ["transducers with a writing epsilon cycle are outside the quantifier (generator filter); kleene_star is "
                   "not applied to operands relating the empty input to a non-empty output"]
    HORIZON = 10.0
    CHUNK = 100

    def layers(self, tier, seed):
        un = lambda gen: (lambda: (("un", c) for c in gen()))
        rep = lambda c: GT.is_rep(c[1])
        two = ["natural@str", "1@int"]
        if tier == "quick":
            return [Layer("FST(2,<=2)", un(lambda: GT.fst_cases(2, 0, 2)), rep=rep,
                          policies=two + ["2@str", "natural@hub", "natural@str+xx", "natural@mixedval", "natural@str+tuple"]),
                    Layer("pairs T1xT1", lambda: (("bin", "T1", i, "T1", j) for i in range(len(pool("T1")))
                                                  for j in range(len(pool("T1")))), policies=two + ["natural@pre", "2@pre", "natural@mixedval", "natural@str+tuple"]),
                    Layer("to_fst FA(2,2,<=3)", lambda: (("fa", c) for c in GF.fa_cases(2, 2, 0, 3)),
                          rep=lambda c: GF.is_rep(c[1]), policies=two)]
        return [Layer("FST(2,<=2)", un(lambda: GT.fst_cases(2, 0, 2)), rep=None,
                      policies=two + ["2@str", "3@int", "natural@hub", "1@hub", "natural@str+xx", "1@int+xx"]),
                Layer("FST(2,3)", un(lambda: GT.fst_cases(2, 3, 3)), rep=rep, policies=two),
                Layer("FST(3 states,<=2)", un(lambda: GT.fst_cases(3, 0, 2)), rep=rep, policies=two),
                Layer("pairs T2xT1 /3", lambda: (("bin", "T2", i, "T1", j) for i in range(len(pool("T2")))
                                                 for j in range(len(pool("T1"))) if (i + j) % 3 == 0), policies=two),
                Layer("pairs T1xT2 /3", lambda: (("bin", "T1", i, "T2", j) for i in range(len(pool("T1")))
                                                 for j in range(len(pool("T2"))) if (i + j) % 3 == 0), policies=two),
                Layer("to_fst FA(2,2,<=4)", lambda: (("fa", c) for c in GF.fa_cases(2, 2, 0, 4)),
                      rep=lambda c: GF.is_rep(c[1]), policies=two)]

    def resolve(self, case):
        if case[0] == "un":
            return GT.thaw(case[1]), None
        if case[0] == "bin":
            return pool(case[1])[case[2]], pool(case[3])[case[4]]
        return GF.thaw(case[1]), None

    def reference(self, case):
        a, b = self.resolve(case)
        if case[0] == "fa":
            r = O.ref_from_case(a, "str")
            return {"n": sum(1 for w in INPUTS if r.accepts(w))}
        ra = O.ref_fst_from_case(a)
        if ra.has_writing_eps_cycle():
            return SKIP
        return {"n": sum(len(ra.relation(w)) for w in INPUTS2)}

    def outcome(self, case, ref):
        return (case[0], ref["n"])

    def nontrivial(self, case, ref):
        return ref["n"] > 0

    def describe(self, case):
        a, b = self.resolve(case)
        if case[0] == "fa":
            return {"automaton": [a[0], [list(t) for t in a[2]], a[3], a[4]]}
        d = {"A": O.ref_fst_from_case(a).describe()}
        if b is not None:
            d["B"] = O.ref_fst_from_case(b).describe()
        return d

    script = describe

    def thaw(self, case):
        if case[0] == "un":
            return ("un", GT.thaw(case[1]))
        if case[0] == "fa":
            return ("fa", GF.thaw(case[1]))
        return tuple(case)

    # ---- helpers
    @staticmethod
    def _translate(ctx, clause, f, w, want, **kw):
        r = ctx.collect(f.translate, list(w), limit=len(want) * 4 + 50)
        if not ctx.returns(r, clause, input=w, **kw):
            return
        try:
            got = {tuple(o) for o in r.value}
        except TypeError:
            ctx.fail(clause, input=w, got="malformed output item", **kw)
            return
        if got != want:
            ctx.fail(clause, input=w, missing=sorted(want - got)[:3], extra=sorted(got - want)[:3], **kw)

    def _result(self, ctx, name, res, want_fn, inputs):
        """res: Res of an operation returning a transducer; want_fn(w) -> reference set of outputs."""
        if not ctx.returns(res, "C16." + name):
            return
        x = ctx.call(O.extract_fst, res.value)
        if not ctx.returns(x, "C16." + name + ".extract"):
            return
        x = x.value
        if x.has_writing_eps_cycle():
            ctx.fail("C16.%s.relation" % name, why="result has an epsilon cycle that writes", result=x.describe())
            return
        for w in inputs:
            want = want_fn(w)
            got = x.relation(w)
            if got != want:
                ctx.fail("C16.%s.relation" % name, input=w, missing=sorted(want - got)[:3], extra=sorted(got - want)[:3],
                         result=x.describe())
                break
        for w in inputs[:7]:
            self._translate(ctx, "C16.%s.translate" % name, res.value, w, want_fn(w))

    def check(self, case, ref, ctx):
        scheme = ctx.variant or "str"
        a, b = self.resolve(case)
        if case[0] == "fa":
            rn = O.ref_from_case(a, scheme)
            fa = ctx.call(O.build_fa, a, "enfa", scheme)
            if not ctx.returns(fa, "C16.build"):
                return
            self._result(ctx, "to_fst", ctx.call(fa.value.to_fst), lambda w: {tuple(w)} if rn.accepts(w) else set(), INPUTS)
            # symbols that are words of several letters, tuples and integers: each is one output symbol
            for syms in (["ab", "c1"], [("a", "b"), ("c",)], [1, 2]):
                rn2 = O.ref_from_case(a, scheme, syms)
                fa2 = ctx.call(O.build_fa, a, "enfa", scheme, syms)
                if not ctx.returns(fa2, "C16.build", symbols=repr(syms)):
                    continue
                inputs2 = [tuple(w) for w in RN.all_words(syms, 2)]
                self._result(ctx, "to_fst", ctx.call(fa2.value.to_fst),
                             lambda w: {tuple(w)} if rn2.accepts(w) else set(), inputs2)
            return
        ra = O.ref_fst_from_case(a, scheme)
        fa = ctx.call(O.build_fst, a, scheme)
        if not ctx.returns(fa, "C16.build"):
            return
        fa = fa.value
        snap = O.extract_fst(fa).trans
        if case[0] == "un":
            for w in INPUTS:
                self._translate(ctx, "C16.translate", fa, w, ra.relation(w))
            if not any(o for o in ra.relation(())):
                self._result(ctx, "kleene_star", ctx.call(fa.kleene_star), lambda w: RF.star_rel(ra, w), INPUTS)
            ctx.expect(O.extract_fst(fa).trans == snap, "C16.operands_unchanged")
            return
        rb = O.ref_fst_from_case(b, scheme)
        same = case[1] == case[3] and case[2] == case[4]
        if same:
            fb = fa
        else:
            fb = ctx.call(O.build_fst, b, scheme)
            if not ctx.returns(fb, "C16.build"):
                return
            fb = fb.value
        self._result(ctx, "union", ctx.call(fa.union, fb), lambda w: ra.relation(w) | rb.relation(w), INPUTS2)
        self._result(ctx, "union", ctx.call(lambda: fa | fb), lambda w: ra.relation(w) | rb.relation(w), INPUTS2[:3])
        self._result(ctx, "concatenate", ctx.call(fa.concatenate, fb), lambda w: RF.concat_rel(ra, rb, w), INPUTS2)
        self._result(ctx, "concatenate", ctx.call(lambda: fa + fb), lambda w: RF.concat_rel(ra, rb, w), INPUTS2[:3])
        ctx.expect(O.extract_fst(fa).trans == snap, "C16.operands_unchanged")


PROP = C16()
