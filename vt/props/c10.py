"""C10 -- union / concatenation / closure / reversal / substitution build exactly that set."""
from ..engine import Layer
from ..gen import cfg as G
from ..refs.cfg import Gram
from .. import observe as O
from .cfg_common import CFGProp, W3

L = 4
_POOL = {}


def pool(name):
    if name not in _POOL:
        p = {"Q1": (2, 2, 2, 0, 1), "Q2": (2, 2, 2, 0, 2), "Q3": (2, 2, 2, 0, 3)}[name]
        _POOL[name] = [c for c in G.cfg_cases(*p) if G.is_rep(c)]
    return _POOL[name]


def cat(A, B):
    return {u + v for u in A for v in B if len(u) + len(v) <= L}


def star(A, plus=False):
    base = A - {()}
    out = set(A) if plus else {()}
    frontier = set(out)
    while frontier:
        nxt = {u + v for u in frontier for v in base if len(u) + len(v) <= L} - out
        out |= nxt
        frontier = nxt
    return out


def ref_substitute(main, subs):
    """Own grammar composition: main with every terminal t in subs replaced by the start symbol of subs[t];
    variables are tagged so that nothing is captured."""
    def tag(k, s):
        return ("V", (k, s[1])) if s[0] == "V" else s
    prods = []
    for h, b in main.prods:
        body = []
        for s in b:
            if s[0] == "T" and s[1] in subs:
                body.append(("V", (s[1], subs[s[1]].start[1])))
            else:
                body.append(tag("main", s))
        prods.append((tag("main", h), tuple(body)))
    for t, g in subs.items():
        for h, b in g.prods:
            prods.append((tag(t, h), tuple(tag(t, s) for s in b)))
    return Gram(tag("main", main.start), prods)


class C10(CFGProp):
    ID = "C10"
    RULE = ("unary operations on every grammar of the iso-reduced pool Q3=CFG(2,2,2,<=3); binary operations on ordered "
            "pairs from Q2=CFG(2,2,2,<=2) (quick: every 7th partner, always incl. the pair (g,g) with the same object); "
            "substitute on Q2 x Q1 x {one terminal, two terminals with the same grammar object, identity, absent terminal}; "
            "operands share the variable names S,A; non-trivial = result language has >= 2 words of length <= 4")
    BOUNDS = "operands <= 2 variables, <= 3 productions, bodies <= 2; result languages compared on all words <= 4"
    CLAUSES = ["C10.<op>.lang", "C10.<op>.contains", "C10.<op>.operator_form", "C10.<op>.operands_unchanged",
               "C10.*.terminates", "C10.*.no_foreign_exception"]
    ASSUMPTIONS = ["languages compared up to word length 4"]
    CHUNK = 100

    @staticmethod
    def un_cases(name):
        for i in range(len(pool(name))):
            yield ("un", name, i)

    @staticmethod
    def bin_cases(pa, pb, step):
        na, nb = len(pool(pa)), len(pool(pb))
        for i in range(na):
            for j in range(nb):
                if step == 1 or i == j or (i + j) % step == 0:
                    yield ("bin", pa, i, pb, j)

    @staticmethod
    def sub_cases(pa, pb):
        for i in range(len(pool(pa))):
            for j in range(len(pool(pb))):
                for mode in range(4):
                    yield ("sub", pa, i, pb, j, mode)

    def layers(self, tier, seed):
        adv = ["natural@subs", "1@subs", "natural@mixedval", "natural@subs2", "1@subs2"]
        two = ["natural@plain", "1@plain"]
        if tier == "quick":
            return [Layer("unary Q3", lambda: self.un_cases("Q3")),
                    Layer("binary Q2xQ2 /7", lambda: self.bin_cases("Q2", "Q2", 7), policies=two + ["2@plain"]),
                    Layer("substitute Q2xQ1", lambda: self.sub_cases("Q2", "Q1"), policies=two),
                    Layer("unary Q2 /names:subs", lambda: self.un_cases("Q2"), policies=adv),
                    Layer("binary Q2xQ1 /names:subs", lambda: self.bin_cases("Q2", "Q1", 1), policies=adv),
                    Layer("substitute Q1xQ1 /names:subs", lambda: self.sub_cases("Q1", "Q1"), policies=adv)]
        return [Layer("unary Q3", lambda: self.un_cases("Q3")),
                Layer("binary Q2xQ2", lambda: self.bin_cases("Q2", "Q2", 1), policies=two + ["2@plain"]),
                Layer("substitute Q2xQ2 /3", lambda: (c for k, c in enumerate(self.sub_cases("Q2", "Q2")) if k % 3 == 0),
                      policies=two),
                Layer("unary Q3 /names:subs", lambda: self.un_cases("Q3"), policies=adv),
                Layer("binary Q2xQ2 /names:subs /5", lambda: self.bin_cases("Q2", "Q2", 5), policies=adv),
                Layer("substitute Q2xQ1 /names:subs", lambda: self.sub_cases("Q2", "Q1"), policies=adv)]

    def resolve(self, case):
        if case[0] == "un":
            return pool(case[1])[case[2]], None
        return pool(case[1])[case[2]], pool(case[3])[case[4]]

    def reference(self, case):
        ca, cb = self.resolve(case)
        la = self.ref_gram(ca, "plain").lang_upto(L)
        lb = self.ref_gram(cb, "plain").lang_upto(L) if cb is not None else None
        return {"la": la, "lb": lb}

    def outcome(self, case, ref):
        return (case[0], len(ref["la"]), None if ref["lb"] is None else len(ref["lb"]))

    def nontrivial(self, case, ref):
        return len(ref["la"]) >= 2 or (ref["lb"] is not None and len(ref["lb"]) >= 2)

    def describe(self, case):
        ca, cb = self.resolve(case)
        d = {"case": list(case), "A": G.to_text(ca)}
        if cb is not None:
            d["B"] = G.to_text(cb)
        return d

    script = describe

    def thaw(self, case):
        return tuple(case)

    def _res(self, ctx, clause, res, want, **kw):
        if not ctx.returns(res, clause, **kw):
            return None
        x = ctx.call(O.extract_cfg, res.value)
        if not ctx.returns(x, clause + ".extract", **kw):
            return None
        x = x.value
        got = x.lang_upto(L)
        if got != want:
            ctx.fail(clause + ".lang", missing=sorted(want - got)[:3], extra=sorted(got - want)[:3],
                     result=x.describe(), **kw)
        ctx.batch_equal(clause + ".contains", lambda w: res.value.contains(list(w)), W3, lambda w: w in want, **kw)
        return got

    def _same(self, ctx, clause, res, got0):
        if ctx.returns(res, clause):
            x = ctx.call(O.extract_cfg, res.value)
            if ctx.returns(x, clause + ".extract") and got0 is not None:
                ctx.expect(x.value.lang_upto(L) == got0, clause)

    @staticmethod
    def snap(g):
        x = O.extract_cfg(g)
        return (x.start, tuple(x.prods), frozenset(x.variables), frozenset(x.terminals))

    def check(self, case, ref, ctx):
        scheme = ctx.variant or "plain"
        ca, cb = self.resolve(case)
        m = O.cfgmod()
        a = ctx.call(O.build_cfg, ca, scheme, "full")
        if not ctx.returns(a, "C10.build"):
            return
        a = a.value
        sa = self.snap(a)
        la, lb = ref["la"], ref["lb"]
        vn, tn = G.names(ca, scheme)
        ren = dict(zip(["a", "b"], tn))
        if scheme != "plain":   # reference words use the scheme's terminal names
            la = {tuple(ren[x] for x in w) for w in la}
            lb = None if lb is None else {tuple(ren[x] for x in w) for w in lb}
        if case[0] == "un":
            # second pass on an operand whose analyses / normal form are already cached (it was queried before)
            warm = ctx.call(O.build_cfg, ca, scheme, "full")
            if ctx.returns(warm, "C10.build"):
                warm = warm.value
                for w in (["a"], [], ["a", "b"]):
                    ctx.call(warm.contains, [ren.get(x, x) for x in w])
                ctx.call(warm.get_words, 1)
                rev = {w[::-1] for w in la}
                self._res(ctx, "C10.reverse", ctx.call(warm.reverse), rev, operand="queried before")
                self._res(ctx, "C10.closure", ctx.call(warm.get_closure), star(la), operand="queried before")
                self._res(ctx, "C10.positive_closure", ctx.call(warm.get_positive_closure), star(la, plus=True),
                          operand="queried before")
            self._res(ctx, "C10.closure", ctx.call(a.get_closure), star(la))
            self._res(ctx, "C10.positive_closure", ctx.call(a.get_positive_closure), star(la, plus=True))
            rev = {w[::-1] for w in la}
            got = self._res(ctx, "C10.reverse", ctx.call(a.reverse), rev)
            self._same(ctx, "C10.reverse.operator_form", ctx.call(lambda: ~a), got)
            ctx.expect(self.snap(a) == sa, "C10.unary.operands_unchanged")
            if not ca[2]:
                # the grammar without productions also exists as CFG() (no start symbol): what intersection() returns
                # for an empty language
                bare = m.CFG()
                self._res(ctx, "C10.closure", ctx.call(bare.get_closure), {()}, operand="CFG()")
                self._res(ctx, "C10.positive_closure", ctx.call(bare.get_positive_closure), set(), operand="CFG()")
                self._res(ctx, "C10.reverse", ctx.call(bare.reverse), set(), operand="CFG()")
            return
        same = case[1] == case[3] and case[2] == case[4]
        if same:
            b = a
        else:
            b = ctx.call(O.build_cfg, cb, scheme, "full")
            if not ctx.returns(b, "C10.build"):
                return
            b = b.value
        sb = self.snap(b)
        if case[0] == "bin":
            got = self._res(ctx, "C10.union", ctx.call(a.union, b), la | lb)
            self._same(ctx, "C10.union.operator_form", ctx.call(lambda: a | b), got)
            got = self._res(ctx, "C10.concatenate", ctx.call(a.concatenate, b), cat(la, lb))
            self._same(ctx, "C10.concatenate.operator_form", ctx.call(lambda: a + b), got)
            if not cb[2]:
                bare = m.CFG()      # the empty grammar as the library itself hands it out (no start symbol)
                self._res(ctx, "C10.union", ctx.call(a.union, bare), la, operand="CFG() right")
                self._res(ctx, "C10.union", ctx.call(bare.union, a), la, operand="CFG() left")
                self._res(ctx, "C10.concatenate", ctx.call(a.concatenate, bare), set(), operand="CFG() right")
                self._res(ctx, "C10.concatenate", ctx.call(bare.concatenate, a), set(), operand="CFG() left")
        else:
            mode = case[5]
            ra = self.ref_gram(ca, scheme)
            rb = self.ref_gram(cb, scheme)
            t0, t1 = tn[0], tn[1]
            if mode == 0:
                subs, rsubs = {m.Terminal(t0): b}, {t0: rb}
            elif mode == 1:      # the same grammar object for two terminals
                subs, rsubs = {m.Terminal(t0): b, m.Terminal(t1): b}, {t0: rb, t1: rb}
            elif mode == 2:      # identity on the second terminal
                ident = m.CFG(start_symbol=m.Variable("S"), productions={m.Production(m.Variable("S"), [m.Terminal(t1)])})
                rid = Gram(("V", "S"), [(("V", "S"), (("T", t1),))])
                subs, rsubs = {m.Terminal(t0): b, m.Terminal(t1): ident}, {t0: rb, t1: rid}
            else:                # a terminal that does not occur in the grammar
                subs, rsubs = {m.Terminal("zz"): b}, {"zz": rb}
            want = ref_substitute(ra, rsubs).lang_upto(L)
            self._res(ctx, "C10.substitute", ctx.call(a.substitute, subs), want, mode=mode)
        ctx.expect(self.snap(a) == sa and self.snap(b) == sb, "C10.binary.operands_unchanged", kind=case[0])


PROP = C10()
