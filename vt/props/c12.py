"""C12 -- CFG emptiness, finiteness, symbol classes and word enumeration are exact."""
from collections import Counter

from .. import observe as O
from .cfg_common import CFGProp, cfg_layers, lib_words_to_tuples


def symset(xs):
    m = O.cfgmod()
    out = set()
    for x in xs:
        if isinstance(x, m.Variable):
            out.add(("V", x.value))
        elif isinstance(x, m.Terminal):
            out.add(("T", x.value))
        else:
            out.add(("?", repr(x)))
    return out


class C12(CFGProp):
    ID = "C12"
    RULE = ("every grammar of CFG(v,t,b,p) modulo renaming; each query on a fresh object; get_words(n) for n=0..4 and "
            "unbounded on every grammar whose reference language is finite; non-trivial = language non-empty")
    BOUNDS = "v<=2 (3 thorough), bodies<=3, productions<=3 (4 thorough); finiteness decided exactly by the reference"
    CLAUSES = ["C12.is_empty", "C12.is_finite", "C12.generating", "C12.nullable", "C12.reachable", "C12.words.bounded",
               "C12.words.unbounded", "C12.*.terminates", "C12.*.no_foreign_exception"]
    ASSUMPTIONS = ["finiteness oracle: growing-cycle criterion, cross-checked by the length-set criterion in selftest"]

    def layers(self, tier, seed):
        from ..engine import Layer
        from ..gen import cfg as G
        extra = [Layer("three productions of length 3 over one variable", G.long_triples, rep=G.is_rep,
                       policies=["natural@plain", "1@plain"]),
                 Layer("suffix pair + one short production", G.suffix_triples, policies=["natural@plain"])]
        return cfg_layers(tier, adversarial=(), extra_quick=extra, extra_thorough=extra)

    def reference(self, case):
        r = self.ref_gram(case, "plain")
        finite = r.is_finite()
        v, t, prods = case
        maxb = max([len(b) for _, b in prods] + [1])
        full = None
        if finite:
            longest = max(r.word_lengths(maxb ** v + 1) | {0})
            # the whole language is enumerated when its longest word has <= 8 letters (otherwise the unbounded
            # enumeration is not compared for this grammar: 2^9+ words)
            full = r.lang_upto(max(4, longest)) if longest <= 8 else None
        return {"empty": r.is_empty(), "finite": finite, "gen": r.generating(), "null": r.nullable(),
                "reach": r.reachable(), "lang4": r.lang_upto(4), "all": full}

    def outcome(self, case, ref):
        return (ref["empty"], ref["finite"], len(ref["gen"]), len(ref["null"]), len(ref["reach"]), len(ref["lang4"]))

    def nontrivial(self, case, ref):
        return not ref["empty"]

    def _fresh(self, ctx, case, scheme):
        g = ctx.call(O.build_cfg, case, scheme, "full")
        return g.value if ctx.returns(g, "C12.build") else None

    def check(self, case, ref, ctx):
        scheme = ctx.variant or "plain"
        for name, meth, want in (("is_empty", "is_empty", ref["empty"]), ("is_finite", "is_finite", ref["finite"])):
            g = self._fresh(ctx, case, scheme)
            if g is None:
                return
            r = ctx.call(getattr(g, meth))
            if ctx.returns(r, "C12." + name):
                ctx.expect(r.value is want, "C12." + name, got=r.value, want=want)
        for name, meth, want in (("generating", "get_generating_symbols", ref["gen"]),
                                 ("nullable", "get_nullable_symbols", ref["null"]),
                                 ("reachable", "get_reachable_symbols", ref["reach"])):
            g = self._fresh(ctx, case, scheme)
            r = ctx.call(getattr(g, meth))
            if ctx.returns(r, "C12." + name):
                got = symset(r.value)
                ctx.expect(got == want, "C12." + name, missing=sorted(want - got)[:4], extra=sorted(got - want)[:4])
        g = self._fresh(ctx, case, scheme)
        for n in (0, 1, 2, 3, 4):
            want = {w for w in ref["lang4"] if len(w) <= n}
            obj = g if n % 2 else self._fresh(ctx, case, scheme)
            r = ctx.collect(obj.get_words, n, limit=len(want) + 3)
            if ctx.returns(r, "C12.words.bounded", n=n):
                self._cmp(ctx, "C12.words.bounded", r.value, want, n=n)
        if ref["finite"] and ref["all"] is not None:
            g = self._fresh(ctx, case, scheme)
            want = ref["all"]
            r = ctx.collect(g.get_words, limit=len(want) + 3)
            if ctx.returns(r, "C12.words.unbounded"):
                self._cmp(ctx, "C12.words.unbounded", r.value, want, n=-1)
        if not case[2] and scheme == "plain":
            # the grammar without productions also exists as CFG(): no start symbol (CFG.intersection hands it out)
            bare = O.cfgmod().CFG
            for name, call, want_ in (("is_empty", lambda: bare().is_empty(), True), ("is_finite", lambda: bare().is_finite(), True),
                                      ("generating", lambda: symset(bare().get_generating_symbols()), set()),
                                      ("nullable", lambda: symset(bare().get_nullable_symbols()), set()),
                                      ("reachable", lambda: symset(bare().get_reachable_symbols()), set()),
                                      ("words.bounded", lambda: list(bare().get_words(2)), []),
                                      ("words.unbounded", lambda: list(bare().get_words()), [])):
                r = ctx.call(call)
                if ctx.returns(r, "C12." + name, operand="CFG()"):
                    ctx.expect(r.value == want_, "C12." + name, operand="CFG()", got=repr(r.value)[:200], want=repr(want_))
        # the same queries in sequence on ONE object (an analysis cached by one query must not spoil the next)
        g = self._fresh(ctx, case, scheme)
        for name, meth, want in (("is_empty", "is_empty", ref["empty"]), ("generating", "get_generating_symbols", ref["gen"]),
                                 ("nullable", "get_nullable_symbols", ref["null"]), ("is_finite", "is_finite", ref["finite"]),
                                 ("reachable", "get_reachable_symbols", ref["reach"]), ("is_empty", "is_empty", ref["empty"])):
            r = ctx.call(getattr(g, meth))
            if ctx.returns(r, "C12." + name, object="shared"):
                got = r.value if isinstance(want, bool) else symset(r.value)
                ctx.expect(got == want, "C12." + name, object="shared", got=repr(got)[:200], want=repr(want)[:200])
        want = {w for w in ref["lang4"] if len(w) <= 3}
        r = ctx.collect(g.get_words, 3, limit=len(want) + 3)
        if ctx.returns(r, "C12.words.bounded", n=3, object="shared"):
            self._cmp(ctx, "C12.words.bounded", r.value, want, n=3, object="shared")

    @staticmethod
    def _cmp(ctx, clause, got, want, **kw):
        try:
            g = Counter(lib_words_to_tuples(got))
        except TypeError as e:
            ctx.fail(clause, got="malformed item: %s" % (e,), **kw)
            return
        dup = [w for w, c in g.items() if c > 1]
        missing = sorted(want - set(g))
        extra = sorted(set(g) - want)
        if dup or missing or extra:
            ctx.fail(clause, duplicated=dup[:3], missing=missing[:3], extra=extra[:3], **kw)


PROP = C12()
