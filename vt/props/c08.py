"""C08 -- CFG membership is exactly derivability from the start symbol."""
from ..engine import Layer
from ..gen import cfg as G
from .. import observe as O
from .cfg_common import CFGProp, cfg_layers, W4, W3, FOREIGN, word_map


class C08(CFGProp):
    ID = "C08"
    RULE = ("every grammar of CFG(v,t,b,p) (variables S,A[,B], terminals a,b, every set of <= p productions with bodies "
            "<= b) modulo renaming, built with all symbols declared and from productions only; queries on one shared "
            "object (all words in order) and on a second object in reverse order; non-trivial = L<=4 has >= 2 words")
    BOUNDS = "v<=2 (3 thorough), bodies<=3, productions<=3 (4 thorough); words: all of length <=4 over {a,b} + an unknown symbol"
    CLAUSES = ["C08.contains", "C08.in", "C08.generate_epsilon", "C08.*.terminates", "C08.*.no_foreign_exception"]
    ASSUMPTIONS = ["derivability decided for words up to length 4 by a least-fixpoint oracle (second formulation cross-checked in selftest)"]

    def layers(self, tier, seed):
        return cfg_layers(tier, adversarial=("cnf", "clash", "mixedval", "mixedter", "epsspelt", "mixedcnf"))

    def reference(self, case):
        r = self.ref_gram(case, "plain")
        return {"lang": r.lang_upto(4)}

    def outcome(self, case, ref):
        return tuple(sorted(ref["lang"]))[:6], len(ref["lang"])

    def nontrivial(self, case, ref):
        return len(ref["lang"]) >= 2

    def check(self, case, ref, ctx):
        scheme = ctx.variant or "plain"
        lang = ref["lang"]
        to_s, _ = word_map(case, scheme)
        share = {}
        for via, wl in (("full", W4), ("prods", list(reversed(W3)))):
            g = ctx.call(O.build_cfg, case, scheme, via, share)
            if not ctx.returns(g, "C08.build", via=via):
                continue
            g = g.value
            if via == "prods":
                r = ctx.call(g.generate_epsilon)
                if ctx.returns(r, "C08.generate_epsilon"):
                    ctx.expect(r.value is (() in lang), "C08.generate_epsilon", got=r.value, want=() in lang)
            first = ctx.call(g.contains, list(to_s(wl[0])))        # a non-terminating first query must not cost a whole batch
            if first.kind == "timeout":
                ctx.fail("C08.contains.terminates", via=via, word=wl[0])
                return
            if not ctx.batch_equal("C08.contains", lambda w: g.contains(list(to_s(w))), wl, lambda w: w in lang, via=via):
                continue
            ctx.batch_equal("C08.in", lambda w: list(to_s(w)) in g, wl[:7], lambda w: w in lang, via=via)


PROP = C08()
