"""C09 -- clean-up passes and Chomsky normal form keep the language and the promised shape."""
from ..engine import Layer
from ..gen import cfg as G
from .. import observe as O
from .cfg_common import CFGProp, cfg_layers, W3, word_map


def shared_suffix_cases():
    """CFG(2,2,4,2) restricted to pairs of productions of length 3-4 sharing a suffix of length >= 2
    (aimed at the suffix cache of the binarisation)."""
    cand = [c for c in G.candidates(2, 2, 4, 3)]
    for i in range(len(cand)):
        for j in range(i + 1, len(cand)):
            (h1, b1), (h2, b2) = cand[i], cand[j]
            if b1[-2:] == b2[-2:]:
                yield (2, 2, (cand[i], cand[j]))


def cnf2_shapes():
    """S -> (any body of length 3), C#CNF#1 -> (body <= 1), C#CNF#2 -> (body <= 1) over one terminal: grammars in which
    both pre-existing binarisation names are in use while a long production has to be decomposed."""
    from itertools import product
    short = [()] + [(s,) for s in range(4)]
    for body3 in product(range(4), repeat=3):
        for b1 in short:
            for b2 in short:
                yield (3, 1, tuple(sorted([(0, body3), (1, b1), (2, b2)])))


class C09(CFGProp):
    ID = "C09"
    RULE = ("every grammar of CFG(v,t,b,p) modulo renaming plus all pairs of long productions sharing a suffix; each of "
            "remove_useless_symbols / remove_epsilon / eliminate_unit_productions / to_normal_form applied to a fresh "
            "object; non-trivial = L<=4 has >= 2 words")
    BOUNDS = "v<=2 (3 thorough), bodies<=3 (4 for shared suffixes), productions<=3 (4 thorough); languages compared on all words <=4"
    CLAUSES = ["C09.<op>.lang", "C09.<op>.contains", "C09.<op>.shape", "C09.to_normal_form.is_normal_form",
               "C09.*.terminates", "C09.*.no_foreign_exception"]
    ASSUMPTIONS = ["grammar languages are compared up to word length 4 (equality of CFG languages is undecidable in general)"]
    OPS = ["remove_useless_symbols", "remove_epsilon", "eliminate_unit_productions", "to_normal_form"]

    def layers(self, tier, seed):
        extra = [Layer("shared-suffix pairs CFG(2,2,4,2)", shared_suffix_cases,
                       policies=["natural@plain", "1@plain", "2@plain"])]
        extra.append(Layer("three productions of length 3 over one variable", G.long_triples, rep=G.is_rep,
                           policies=["natural@plain", "1@plain", "2@plain"]))
        extra.append(Layer("suffix pair + one short production", G.suffix_triples,
                           policies=["natural@plain", "1@plain"]))
        extra.append(Layer("long production + used C#CNF#1, C#CNF#2", cnf2_shapes, policies=["natural@cnf2", "1@cnf2"]))
        return cfg_layers(tier, adversarial=("cnf", "mixedval", "mixedter", "mixedcnf"), extra_quick=extra, extra_thorough=extra)

    def reference(self, case):
        r = self.ref_gram(case, "plain")
        return {"lang": r.lang_upto(4)}

    def outcome(self, case, ref):
        return tuple(sorted(ref["lang"]))[:6], len(ref["lang"])

    def nontrivial(self, case, ref):
        return len(ref["lang"]) >= 2

    def check(self, case, ref, ctx):
        scheme = ctx.variant or "plain"
        lang = ref["lang"]
        to_s, from_s = word_map(case, scheme)
        for op in self.OPS:
            clause = "C09." + op
            g = ctx.call(O.build_cfg, case, scheme, "full")
            if not ctx.returns(g, "C09.build"):
                return
            r = ctx.call(getattr(g.value, op))
            if not ctx.returns(r, clause):
                continue
            res = r.value
            x = ctx.call(O.extract_cfg, res)
            if not ctx.returns(x, clause + ".extract"):
                continue
            x = x.value
            drop_eps = op in ("remove_epsilon", "to_normal_form")
            got = {from_s(w) for w in x.lang_upto(4)}
            want = lang
            if drop_eps:
                got, want = got - {()}, lang - {()}
            if got != want:
                ctx.fail(clause + ".lang", missing=sorted(want - got)[:3], extra=sorted(got - want)[:3],
                         result=x.describe())
            ctx.batch_equal(clause + ".contains", lambda w: res.contains(list(to_s(w))),
                            [w for w in W3 if w or not drop_eps], lambda w: w in lang)
            if not lang:
                # empty language: any shape that generates nothing is accepted
                continue
            if op == "remove_useless_symbols":
                gen, reach = x.generating(), x.reachable()
                occurring = set(x.variables) | set(x.terminals)
                bad = [s for s in occurring if s not in gen or s not in reach]
                ctx.expect(not bad, clause + ".shape", useless=sorted(map(repr, bad))[:4], result=x.describe())
            elif op == "remove_epsilon":
                bad = [h for h, b in x.prods if not b]
                ctx.expect(not bad, clause + ".shape", epsilon_productions=sorted(map(repr, bad))[:4])
            elif op == "eliminate_unit_productions":
                bad = [(h, b) for h, b in x.prods if len(b) == 1 and b[0][0] == "V"]
                ctx.expect(not bad, clause + ".shape", unit_productions=repr(bad[:3]))
            else:
                bad = [(h, b) for h, b in x.prods
                       if not ((len(b) == 2 and b[0][0] == "V" and b[1][0] == "V") or (len(b) == 1 and b[0][0] == "T"))]
                ctx.expect(not bad, clause + ".shape", not_chomsky=repr(bad[:3]))
                nf = ctx.call(res.is_normal_form)
                if ctx.returns(nf, clause + ".is_normal_form"):
                    ctx.expect(nf.value is True, clause + ".is_normal_form", got=nf.value, result=x.describe())


PROP = C09()
