"""C20 -- export/import round trips and recursive automata reproduce the same machine."""
from ..engine import Prop, Layer
from ..gen import fa as GF
from ..gen import pda as GP
from ..gen import fst as GT
from ..gen import cfg as GC
from ..gen import regex as GR
from ..refs import cfg as RC
from ..refs import nfa as RN
from ..refs import regex as RX
from .. import observe as O

FA_NAMES = {"int": [0, 1, 2], "str": ["q0", "q1", "q2"], "odd": ["q 0", "q\"1'", "été"],
            "helper": ["starting_q1", "q1", "INITIAL_STACK_HIDDEN"], "mix": [1, "1", "x y"]}
FA_SYMS = {"ab": ["a", "b"], "odd": ["a b", "α"], "num": [1, "1"], "zero": [0, ""]}      # zero: falsy symbol values
CFG_SPELL = {"plain": (["S", "A", "B"], ["a", "b"]), "lowervar": (["S", "x", "y1"], ["a", "b"]),
             "capter": (["S", "A", "B"], ["Xa", "B1"]), "both": (["S", "x", "y1"], ["Xa", "B1"]),
             "same": (["S", "A", "B"], ["A", "b"]), "samelower": (["S", "a", "y1"], ["a", "b"]),
             "startlower": (["a", "S", "y1"], ["a", "b"]), "nonascii": (["S", "A", "B"], ["Ölaf", "Ωb"]),
             "epsspelt": (["S", "A", "B"], ["$", "ε"]),
             "oddvar": (["S", "#V", "1st"], ["a", "b"]), "oddvar2": (["_s", "_x", "#V"], ["a", "_b"])}     # variables starting with a non-letter     # terminals spelt like the reader's epsilon markers


def ebnf_bodies():
    leaves = [("sym", "a"), ("sym", "b"), ("sym", "S"), ("sym", "A"), ("eps",)]
    out = list(leaves) + [("star", x) for x in leaves]
    for x in leaves:
        for y in leaves:
            out.append(("cat", x, y))
            out.append(("alt", x, y))
    return out


_BODIES = ebnf_bodies()
_LINES = [(h, i) for h in ("S", "A") for i in range(-1, len(_BODIES))]     # -1: empty body


def ebnf_cases(nlines, stride=1):
    from itertools import product
    k = 0
    for combo in product(range(len(_LINES)), repeat=nlines):
        k += 1
        if k % stride == 0:
            yield ("ebnf", combo)


def ebnf_text(case):
    lines = []
    for i in case[1]:
        h, b = _LINES[i]
        lines.append("%s -> %s" % (h, "" if b < 0 else GR.render(_BODIES[b], " ", "|")))
    return "\n".join(lines)


class C20(Prop):
    ID = "C20"
    RULE = ("networkx round trip of every epsilon-NFA of FA(2..3 states,{a,b},<= t) (epsilon edges, several start states, "
            "parallel edges, isolated states) under naming schemes int/str/odd strings/helper-node names and odd symbol "
            "values, of every PDA of PDA(2,2,2,<=2) (strided) and every FST of FST(2,<=2); text round trip of every "
            "grammar of CFG(2,2,2,<=3) under nine spellings (VAR:/TER: markers, a variable and a terminal with the same "
            "spelling, terminals spelt like epsilon markers, epsilon productions); from_ebnf on every text of 1-2 lines (3 lines strided) with heads S,A and "
            "bodies from all regex ASTs <= 3 nodes over {a,b,S,A,epsilon}; non-trivial = machine with >= 1 transition / "
            "grammar with >= 1 word / text with >= 2 lines")
    BOUNDS = "automata 2-3 states <= 4 transitions; PDA/FST 2 states <= 2 transitions; grammars <= 3 productions; EBNF <= 3 lines"
    CLAUSES = ["C20.fa.roundtrip", "C20.pda.roundtrip", "C20.fst.roundtrip", "C20.cfg.text_roundtrip", "C20.ebnf.boxes",
               "C20.ebnf.box_language", "C20.ebnf.start_box", "C20.from_regex.box", "C20.*.no_foreign_exception"]
    ASSUMPTIONS = ["names are JSON-representable, are not epsilon spellings and do not contain ' -> ' or ' / ' (generator)"]
    HORIZON = 10.0

    def layers(self, tier, seed):
        nat = ["natural"]
        fa = lambda gen: (lambda: (("fa", c) for c in gen()))
        two = ["natural", "1"]
        if tier == "quick":
            return [Layer("FA(2,2,<=4)", fa(lambda: GF.fa_cases(2, 2, 0, 4)), policies=nat),
                    Layer("FA(3,2,<=2)", fa(lambda: GF.fa_cases(3, 2, 0, 2)), policies=nat),
                    Layer("PDA(2,2,2,<=2)/7", lambda: (("pda", c) for k, c in enumerate(GP.pda_cases(2, 2, 2, 0, 2)) if k % 7 == 0), policies=nat),
                    Layer("FST(2,<=2)", lambda: (("fst", c) for c in GT.fst_cases(2, 0, 2)), rep=lambda c: GT.is_rep(c[1]), policies=nat),
                    Layer("CFG(2,2,2,<=3) text", lambda: (("cfg", c) for c in GC.cfg_cases(2, 2, 2, 0, 3)), rep=lambda c: GC.is_rep(c[1]),
                          policies=nat + ["1", "2", "3"]),
                    Layer("EBNF 1 line", lambda: ebnf_cases(1), policies=nat),
                    Layer("EBNF 2 lines", lambda: ebnf_cases(2), policies=nat),
                    Layer("EBNF 3 lines /97", lambda: ebnf_cases(3, 97), policies=nat)]
        return [Layer("FA(2,2,<=6)", fa(lambda: GF.fa_cases(2, 2, 0, 6)), policies=two),
                Layer("FA(3,2,<=3)", fa(lambda: GF.fa_cases(3, 2, 0, 3)), policies=two),
                Layer("PDA(2,2,2,<=2)", lambda: (("pda", c) for c in GP.pda_cases(2, 2, 2, 0, 2)), policies=nat),
                Layer("FST(2,<=3)", lambda: (("fst", c) for c in GT.fst_cases(2, 0, 3)), rep=lambda c: GT.is_rep(c[1]), policies=nat),
                Layer("CFG(2,2,2,<=3) text", lambda: (("cfg", c) for c in GC.cfg_cases(2, 2, 2, 0, 3)), policies=two),
                Layer("CFG(3,2,2,<=3) text", lambda: (("cfg", c) for c in GC.cfg_cases(3, 2, 2, 0, 3)), rep=lambda c: GC.is_rep(c[1]), policies=nat),
                Layer("EBNF <=2 lines", lambda: (c for n in (1, 2) for c in ebnf_cases(n)), policies=two),
                Layer("EBNF 3 lines /11", lambda: ebnf_cases(3, 11), policies=nat)]

    def reference(self, case):
        k = case[0]
        if k == "fa":
            return {"n": len(case[1][2])}
        if k in ("pda", "fst"):
            return {"n": len(case[1][2] if k == "pda" else case[1][1])}
        if k == "cfg":
            return {"n": len(RC.from_case(case[1]).lang_upto(3))}
        return {"n": len(case[1])}

    def outcome(self, case, ref):
        return (case[0], min(ref["n"], 3))

    def nontrivial(self, case, ref):
        return ref["n"] >= (2 if case[0] == "ebnf" else 1)

    def describe(self, case):
        if case[0] == "ebnf":
            return {"ebnf": ebnf_text(case)}
        if case[0] == "cfg":
            return {"grammar": GC.to_text(case[1])}
        return {"kind": case[0], "case": repr(case[1])[:300]}

    script = describe

    def thaw(self, case):
        k = case[0]
        if k == "fa":
            return (k, GF.thaw(case[1]))
        if k == "pda":
            return (k, GP.thaw(case[1]))
        if k == "fst":
            return (k, GT.thaw(case[1]))
        if k == "cfg":
            return (k, GC.thaw(case[1]))
        return (k, tuple(case[1]))

    # ---------------------------------------------------------------- checks
    def check(self, case, ref, ctx):
        getattr(self, "_" + case[0])(case[1] if case[0] != "ebnf" else case, ctx)

    def _fa(self, c, ctx):
        m = O.lib()
        n, k, trans, st, fi = c
        for scheme, names in FA_NAMES.items():
            for symset, syms in FA_SYMS.items():
                if scheme not in ("int", "helper") and symset != "ab":
                    continue
                nm = names[:n]
                a = m.EpsilonNFA(states=set(nm))            # all states declared: isolated ones included
                for p, s, q in trans:
                    a.add_transition(nm[p], "epsilon" if s == 0 else syms[s - 1], nm[q])
                for i in range(n):
                    if st >> i & 1:
                        a.add_start_state(nm[i])
                    if fi >> i & 1:
                        a.add_final_state(nm[i])
                before = O.extract_fa(a)
                g = ctx.call(a.to_networkx)
                if not ctx.returns(g, "C20.fa.to_networkx", names=scheme, symbols=symset):
                    continue
                b = ctx.call(m.EpsilonNFA.from_networkx, g.value)
                if not ctx.returns(b, "C20.fa.from_networkx", names=scheme, symbols=symset):
                    continue
                after = O.extract_fa(b.value)
                if (before.states, before.starts, before.finals, before.trans) != \
                        (after.states, after.starts, after.finals, after.trans):
                    ctx.fail("C20.fa.roundtrip", names=scheme, symbols=symset, before=before.describe(), after=after.describe())
                if scheme == "int" and symset == "ab":
                    self._export_twice(ctx, m, a, nm)
                    if O.case_kind(c) == "dfa":
                        d = ctx.call(O.build_fa, c, "dfa", "int")
                        if ctx.returns(d, "C20.fa.build"):
                            self._export_twice(ctx, m, d.value, nm, only_start=True)

    @staticmethod
    def _export_twice(ctx, m, a, nm, only_start=False):
        """the machine is exported, changed through its public mutators, and exported again: the second export must
        describe the machine as it is now"""
        ctx.call(a.to_networkx)
        a.add_start_state(nm[-1])
        if not only_start:      # (one mutator alone, so that a cache cleared by another one cannot hide a stale export)
            a.add_final_state(nm[0])
            a.add_transition(nm[0], "b", nm[-1]) if not a(nm[0], "b") else None
        before = O.extract_fa(a)
        g = ctx.call(a.to_networkx)
        if ctx.returns(g, "C20.fa.to_networkx", second=True):
            b = ctx.call(m.EpsilonNFA.from_networkx, g.value)
            if ctx.returns(b, "C20.fa.from_networkx", second=True):
                after = O.extract_fa(b.value)
                if (before.states, before.starts, before.finals, before.trans) != \
                        (after.states, after.starts, after.finals, after.trans):
                    ctx.fail("C20.fa.roundtrip", what="second export after a change", cls=type(a).__name__,
                             before=before.describe(), after=after.describe())

    def _pda(self, c, ctx):
        m = O.pdamod()
        for scheme in ("plain", "int", "helper", "helper2", "helper2/no start stack symbol"):
            q, g, trans, fi = c
            if scheme == "helper":
                sn, kn = ["starting_q1", "q1"][:q], ["INITIAL_STACK_HIDDEN", "X y"][:g]
            elif scheme.startswith("helper2"):      # a state named like the node the exporter invents for the start stack symbol
                sn, kn = ["INITIAL_STACK_HIDDEN", "q1"][:q], ["Z", "X y"][:g]
            else:
                sn, kn = GP.names(scheme, q, g)
            if scheme.endswith("no start stack symbol"):
                p = m.PDA(states=set(sn), start_state=sn[0], final_states={sn[i] for i in range(q) if fi >> i & 1})
            else:
                p = m.PDA(states=set(sn), start_state=sn[0], start_stack_symbol=kn[0],
                          final_states={sn[i] for i in range(q) if fi >> i & 1})
            for s, a, X, r, gamma in trans:
                p.add_transition(sn[s], "epsilon" if a == 0 else GP.IN[a], kn[X], sn[r], [kn[y] for y in gamma])
            before = O.extract_pda(p)
            gr = ctx.call(p.to_networkx)
            if not ctx.returns(gr, "C20.pda.to_networkx", names=scheme):
                continue
            b = ctx.call(m.PDA.from_networkx, gr.value)
            if not ctx.returns(b, "C20.pda.from_networkx", names=scheme):
                continue
            x = ctx.call(O.extract_pda, b.value)
            if not ctx.returns(x, "C20.pda.extract", names=scheme):
                continue
            after = x.value
            if (before.states, before.start, before.start_stack, before.finals, before.trans) != \
                    (after.states, after.start, after.start_stack, after.finals, after.trans):
                ctx.fail("C20.pda.roundtrip", names=scheme, before=before.describe(), after=after.describe(),
                         states_before=sorted(map(repr, before.states)), states_after=sorted(map(repr, after.states)))

    def _fst(self, c, ctx):
        from pyformlang.fst import FST
        for scheme in ("str", "int"):
            f = O.build_fst(c, scheme)
            for nme in GT.names(scheme, c[0]):
                f.states.add(nme) if False else None
            before = O.extract_fst(f)
            gr = ctx.call(f.to_networkx)
            if not ctx.returns(gr, "C20.fst.to_networkx", names=scheme):
                continue
            b = ctx.call(FST.from_networkx, gr.value)
            if not ctx.returns(b, "C20.fst.from_networkx", names=scheme):
                continue
            after = O.extract_fst(b.value)
            if (before.states, before.starts, before.finals, before.trans) != \
                    (after.states, after.starts, after.finals, after.trans):
                ctx.fail("C20.fst.roundtrip", names=scheme, before=before.describe(), after=after.describe())

    def _cfg(self, c, ctx):
        m = O.cfgmod()
        v, t, prods = c
        for spell, (vn, tn) in CFG_SPELL.items():
            V = [m.Variable(x) for x in vn[:v]]
            T = [m.Terminal(x) for x in tn[:t]]
            sym = lambda i: V[i] if i < v else T[i - v]
            g = m.CFG(start_symbol=V[0], productions={m.Production(V[h], [sym(s) for s in body]) for h, body in prods})
            want = RC.from_case(c, vn[:v], tn[:t])
            text = ctx.call(g.to_text)
            if not ctx.returns(text, "C20.cfg.to_text", spelling=spell):
                continue
            g2 = ctx.call(m.CFG.from_text, text.value, V[0])
            if not ctx.returns(g2, "C20.cfg.from_text", spelling=spell, text=text.value):
                continue
            x = ctx.call(O.extract_cfg, g2.value)
            if not ctx.returns(x, "C20.cfg.extract", spelling=spell):
                continue
            got, wl = x.value.lang_upto(4), want.lang_upto(4)
            kinds_ok = set(x.value.prods) == set(want.prods)
            if got != wl or not kinds_ok:
                ctx.fail("C20.cfg.text_roundtrip", spelling=spell, text=text.value, missing=sorted(wl - got)[:3],
                         extra=sorted(got - wl)[:3], productions_equal=kinds_ok, reread=x.value.describe())

    def _ebnf(self, case, ctx):
        from pyformlang.rsa import RecursiveAutomaton
        from pyformlang.regular_expression import Regex
        text = ebnf_text(case)
        heads = {}
        for i in case[1]:
            h, b = _LINES[i]
            heads.setdefault(h, []).append(("eps",) if b < 0 else _BODIES[b])
        # texts without a line for S are read with the start non-terminal A (the default start is S)
        start = "S" if "S" in heads else "A"
        r = ctx.call(RecursiveAutomaton.from_ebnf, text) if start == "S" else ctx.call(RecursiveAutomaton.from_ebnf, text, start)
        if not ctx.returns(r, "C20.ebnf.from_ebnf", text=text):
            return
        rsa = r.value
        got_heads = {s.value for s in rsa.nonterminals}
        ctx.expect(got_heads == set(heads) and rsa.get_number_boxes() == len(heads), "C20.ebnf.boxes", text=text,
                   got=sorted(got_heads), want=sorted(heads))
        for h, bodies in heads.items():
            box = rsa.get_box_by_nonterminal(h)
            if box is None:
                ctx.fail("C20.ebnf.boxes", text=text, missing_box=h)
                continue
            ctx.expect(box.nonterminal.value == h, "C20.ebnf.boxes", text=text, box=h, nonterminal=repr(box.nonterminal))
            ast = bodies[0]
            for b in bodies[1:]:
                ast = ("alt", ast, b)
            x = ctx.call(O.extract_fa, box.dfa)
            if ctx.returns(x, "C20.ebnf.extract", text=text):
                w = RN.distinguish(RX.to_nfa(ast), x.value)
                ctx.expect(w is None, "C20.ebnf.box_language", text=text, box=h, witness=w)
        sb = ctx.call(lambda: rsa.start_box)
        if ctx.returns(sb, "C20.ebnf.start_box", text=text):
            ctx.expect(sb.value.nonterminal.value == start and sb.value is rsa.get_box_by_nonterminal(start), "C20.ebnf.start_box", text=text)
        if len(case[1]) == 1:
            h, b = _LINES[case[1][0]]
            if b >= 0:
                rt = GR.render(_BODIES[b], " ", "|")
                rr = ctx.call(lambda: RecursiveAutomaton.from_regex(Regex(rt), "S"))
                if ctx.returns(rr, "C20.from_regex", regex=rt):
                    ok = rr.value.get_number_boxes() == 1 and rr.value.get_box_by_nonterminal("S") is not None
                    if ok:
                        w = RN.distinguish(RX.to_nfa(_BODIES[b]), O.extract_fa(rr.value.get_box_by_nonterminal("S").dfa))
                        ok = w is None
                    ctx.expect(ok, "C20.from_regex.box", regex=rt)


PROP = C20()
