"""C13 -- CFG <-> PDA and PDA acceptance-mode conversions preserve the language."""
from .cfg_common import word_map
from ..engine import Prop, Layer
from ..gen import pda as GP
from ..gen import cfg as GC
from ..refs import cfg as RC
from ..refs import nfa as RN
from .. import observe as O

T2 = ["a", "b"]


def words(n):
    return [tuple(w) for w in RN.all_words(T2, n)]


class C13(Prop):
    ID = "C13"
    RULE = ("every PDA of PDA(2 states, stack {Z,X}, pushes <= 2, <= t transitions, any final set) and of PDA(1 state, 3 transitions) modulo swapping the input "
            "letters (nondeterministic, epsilon moves, stack-growing epsilon cycles, no final states, start symbol never "
            "consumed are all in the family) and every grammar of CFG(2,2,2,<=3); plain names, the library's reserved "
            "fresh names and values of different types with one spelling (0 and '0'); non-trivial = some accepted word")
    BOUNDS = "2 states (3 thorough), 2 stack symbols, pushes <= 2 (3 thorough), <= 2 transitions (3 thorough); all words <= 3 (4 thorough)"
    CLAUSES = ["C13.to_pda.lang", "C13.to_cfg.lang", "C13.to_cfg.contains", "C13.to_final_state.lang",
               "C13.to_empty_stack.lang", "C13.to_empty_stack.to_cfg.lang", "C13.to_final_state.to_empty_stack.lang", "C13.operand_unchanged", "C13.*.terminates", "C13.*.no_foreign_exception"]
    ASSUMPTIONS = ["PDA languages decided exactly for all words up to the bound by the summary fixpoint (cross-checked by "
                   "configuration BFS in selftest)"]
    HORIZON = 10.0

    @staticmethod
    def pda_layer(name, gen, policies, rep=GP.is_rep):
        return Layer(name, lambda: (("pda", c) for c in gen()), rep=(lambda c: rep(c[1])) if rep else None,
                     policies=policies)

    @staticmethod
    def cfg_layer(name, gen, policies, rep=True):
        return Layer(name, lambda: (("cfg", c) for c in gen()), rep=(lambda c: GC.is_rep(c[1])) if rep else None,
                     policies=policies)

    def layers(self, tier, seed):
        pl = ["natural@plain", "1@plain", "2@int"]
        adv = ["natural@reserved", "1@reserved2", "natural@mixedval"]
        if tier == "quick":
            return [self.pda_layer("PDA(2,2,2,<=2)", lambda: GP.pda_cases(2, 2, 2, 0, 2), pl),
                    self.pda_layer("PDA(1,2,2,3)", lambda: GP.pda_cases(1, 2, 2, 3, 3), pl[:2]),
                    self.pda_layer("PDA(2,2,2,<=2)/names:reserved (every 3rd)",
                                   lambda: (c for k, c in enumerate(GP.pda_cases(2, 2, 2, 0, 2)) if k % 3 == 0), adv),
                    self.cfg_layer("CFG(2,2,2,<=3)", lambda: GC.cfg_cases(2, 2, 2, 0, 3),
                                   ["natural@plain", "1@plain", "natural@pda", "1@pda", "2@pda", "3@pda", "natural@mixedval", "natural@mixedter"]),
                    self.cfg_layer("CFG(3,2,2,<=2)/names:mixedpda", lambda: GC.cfg_cases(3, 2, 2, 0, 2), ["natural@mixedpda", "1@mixedpda"], rep=False),
                    self.pda_layer("PDA(1 state): two transitions with the same push of 3 symbols + one short transition",
                                   GP.same_long_push_cases, pl[:1], rep=None)]
        return [self.pda_layer("PDA(2,2,2,<=2)", lambda: GP.pda_cases(2, 2, 2, 0, 2), pl + ["3@plain", "s%d@plain" % seed], rep=None),
                self.pda_layer("PDA(1,2,2,<=4)", lambda: GP.pda_cases(1, 2, 2, 3, 4), pl[:2]),
                self.pda_layer("PDA(2,2,2,3) every 5th", lambda: (c for k, c in enumerate(GP.pda_cases(2, 2, 2, 3, 3)) if k % 5 == 0), pl[:2]),
                self.pda_layer("PDA(2,2,3,<=2)", lambda: GP.pda_cases(2, 2, 3, 0, 2), pl[:2]),
                self.pda_layer("PDA(3,1,2,<=3)", lambda: GP.pda_cases(3, 1, 2, 0, 3), pl[:2], rep=None),
                self.pda_layer("PDA(2,2,2,<=2)/names:reserved", lambda: GP.pda_cases(2, 2, 2, 0, 2), adv),
                self.cfg_layer("CFG(2,2,2,<=3)", lambda: GC.cfg_cases(2, 2, 2, 0, 3), ["natural@plain", "1@plain", "2@pda", "3@pda", "natural@mixedval", "1@mixedval", "natural@mixedter"]),
                self.cfg_layer("CFG(2,2,3,<=2)", lambda: GC.cfg_cases(2, 2, 3, 0, 2), ["natural@plain", "2@pda"]),
                self.cfg_layer("CFG(3,2,2,<=3)/names:mixedpda", lambda: GC.cfg_cases(3, 2, 2, 0, 3), ["natural@mixedpda", "1@mixedpda"], rep=False),
                self.pda_layer("PDA(1 state): two transitions with the same push of 3 symbols + one short transition",
                               GP.same_long_push_cases, pl[:2], rep=None)]

    N = {"quick": 3, "thorough": 4}

    def reference(self, case):
        n = 3
        if case[0] == "pda":
            r = O.ref_pda_from_case(case[1])
            return {"E": r.lang_empty_stack(n), "F": r.lang_final_state(n), "n": n}
        r = RC.from_case(case[1])
        return {"L": r.lang_upto(n), "n": n}

    def outcome(self, case, ref):
        if case[0] == "pda":
            return ("pda", tuple(sorted(ref["E"]))[:5], tuple(sorted(ref["F"]))[:5])
        return ("cfg", tuple(sorted(ref["L"]))[:6])

    def nontrivial(self, case, ref):
        return bool(ref.get("E") or ref.get("F") or ref.get("L"))

    def describe(self, case):
        if case[0] == "pda":
            return GP.describe(case[1])
        return {"grammar": GC.to_text(case[1])}

    script = describe

    def thaw(self, case):
        return (case[0], GP.thaw(case[1]) if case[0] == "pda" else GC.thaw(case[1]))

    @staticmethod
    def _cmp(ctx, clause, got, want, **kw):
        if got != want:
            ctx.fail(clause, missing=sorted(want - got)[:3], extra=sorted(got - want)[:3], **kw)

    def check(self, case, ref, ctx):
        scheme = ctx.variant or "plain"
        n = ref["n"]
        if case[0] == "cfg":
            g = ctx.call(O.build_cfg, case[1], scheme if scheme in ("pda", "mixedval", "mixedter", "mixedpda") else "plain", "full")
            if not ctx.returns(g, "C13.build"):
                return
            p = ctx.call(g.value.to_pda)
            if ctx.returns(p, "C13.to_pda"):
                x = ctx.call(O.extract_pda, p.value)
                if ctx.returns(x, "C13.to_pda.extract"):
                    if not case[1][2] and scheme == "plain":
                        # the grammar without productions also exists as CFG() (no start symbol, handed out by
                        # CFG.intersection for an empty language)
                        pb = ctx.call(O.cfgmod().CFG().to_pda)
                        if ctx.returns(pb, "C13.to_pda", operand="CFG()"):
                            xb = ctx.call(O.extract_pda, pb.value)
                            if ctx.returns(xb, "C13.to_pda.extract", operand="CFG()"):
                                self._cmp(ctx, "C13.to_pda.lang", xb.value.lang_empty_stack(n), set(), operand="CFG()")
                    _, from_s = word_map(case[1], scheme if scheme in ("mixedter", "mixedpda") else "plain")
                    self._cmp(ctx, "C13.to_pda.lang", {from_s(w) for w in x.value.lang_empty_stack(n)}, ref["L"],
                              result=x.value.describe())
            return
        c = case[1]
        p = ctx.call(O.build_pda, c, scheme)
        if not ctx.returns(p, "C13.build"):
            return
        p = p.value
        before = O.extract_pda(p)
        # names differ between schemes, languages do not
        r = ctx.call(p.to_final_state)
        if ctx.returns(r, "C13.to_final_state"):
            x = ctx.call(O.extract_pda, r.value)
            if ctx.returns(x, "C13.to_final_state.extract"):
                self._cmp(ctx, "C13.to_final_state.lang", x.value.lang_final_state(n), ref["E"], result=x.value.describe())
        r = ctx.call(p.to_empty_stack)
        if ctx.returns(r, "C13.to_empty_stack"):
            x = ctx.call(O.extract_pda, r.value)
            if ctx.returns(x, "C13.to_empty_stack.extract"):
                self._cmp(ctx, "C13.to_empty_stack.lang", x.value.lang_empty_stack(n), ref["F"], result=x.value.describe())
        r = ctx.call(p.to_cfg)
        if ctx.returns(r, "C13.to_cfg"):
            x = ctx.call(O.extract_cfg, r.value)
            if ctx.returns(x, "C13.to_cfg.extract"):
                self._cmp(ctx, "C13.to_cfg.lang", x.value.lang_upto(n), ref["E"])
            for w in words(2):
                cc = ctx.call(r.value.contains, list(w))
                if not ctx.returns(cc, "C13.to_cfg.contains", word=w):
                    break
                if cc.value is not (w in ref["E"]):
                    ctx.fail("C13.to_cfg.contains", word=w, got=cc.value, want=w in ref["E"])
                    break
        after = O.extract_pda(p)
        ctx.expect((before.trans, before.start, before.start_stack, before.finals, before.states) ==
                   (after.trans, after.start, after.start_stack, after.finals, after.states), "C13.operand_unchanged")
        # conversions of conversions, on a PDA assembled call by call (nothing declared in the constructor)
        p2 = ctx.call(O.build_pda, c, scheme, True)
        if not ctx.returns(p2, "C13.build", how="lazy"):
            return
        p2 = p2.value
        r = ctx.call(lambda: p2.to_empty_stack().to_cfg())
        if ctx.returns(r, "C13.to_empty_stack.to_cfg"):
            x = ctx.call(O.extract_cfg, r.value)
            if ctx.returns(x, "C13.to_empty_stack.to_cfg.extract"):
                self._cmp(ctx, "C13.to_empty_stack.to_cfg.lang", x.value.lang_upto(n), ref["F"])
        r = ctx.call(lambda: p2.to_final_state().to_empty_stack())
        if ctx.returns(r, "C13.to_final_state.to_empty_stack"):
            x = ctx.call(O.extract_pda, r.value)
            if ctx.returns(x, "C13.to_final_state.to_empty_stack.extract"):
                self._cmp(ctx, "C13.to_final_state.to_empty_stack.lang", x.value.lang_empty_stack(n), ref["E"])
        # a PDA given to the constructor as a ready-made transition function
        p3 = ctx.call(O.build_pda, c, scheme, "tf_only")
        if not ctx.returns(p3, "C13.build", via="transition_function"):
            return
        p3 = p3.value
        for name, call, lang, want in (("to_cfg", p3.to_cfg, lambda v: O.extract_cfg(v).lang_upto(n), ref["E"]),
                                       ("to_final_state", p3.to_final_state, lambda v: O.extract_pda(v).lang_final_state(n), ref["E"]),
                                       ("to_empty_stack", p3.to_empty_stack, lambda v: O.extract_pda(v).lang_empty_stack(n), ref["F"])):
            r = ctx.call(call)
            if ctx.returns(r, "C13." + name, via="transition_function"):
                x = ctx.call(lang, r.value)
                if ctx.returns(x, "C13.%s.extract" % name, via="transition_function"):
                    self._cmp(ctx, "C13.%s.lang" % name, x.value, want, via="transition_function")


PROP = C13()
