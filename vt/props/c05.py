"""C05 -- regex text means what the documented grammar says, in every representation."""
from ..engine import Prop, Layer
from ..gen import regex as GR
from ..refs import regex as RX
from ..refs import nfa as RN
from .. import observe as O


def classify(text):
    try:
        return ("WELL", RX.parse(text))
    except RX.Ill as e:
        return ("ILL", str(e))
    except RX.Unspec as e:
        return ("UNSPEC", str(e))


def words_for(ast, n=2):
    syms = sorted(RX.symbols(ast))[:3]
    out = [tuple(w) for w in RN.all_words(syms, n)] if syms else [()]
    out += [("zz",)] + [(s, "zz") for s in syms[:1]]
    return out


class C05(Prop):
    ID = "C05"
    RULE = ("(i) every string of <= L tokens over {a,b,ab,blank,.,|,+,*,(,),epsilon,$,\\|,\\*,\\(,\\$,escaped blank} (well-formed, ill-formed "
            "and unspecified texts), (ii) every regex AST with <= s nodes over leaves {a,b,epsilon,escaped |,escaped $,escaped blank} rendered "
            "with minimal and with redundant parentheses and all spellings of concatenation (blank . ' . ') and union "
            "(| + ' | '), (iii) union/concatenate/kleene_star on all ordered pairs of ASTs <= 3 nodes; "
            "non-trivial = well-formed text with >= 2 distinct symbols or an operator")
    BOUNDS = "L<=4 tokens (5 thorough), s<=5 nodes (6 thorough); automaton-side comparisons exact, grammar side on words <=4"
    CLAUSES = ["C05.construct", "C05.ill_formed.exception_type", "C05.unspecified.exception_type", "C05.tree.lang",
               "C05.accepts", "C05.to_epsilon_nfa.lang", "C05.to_cfg.lang", "C05.to_cfg.contains", "C05.str.reparse",
               "C05.union.lang", "C05.concatenate.lang", "C05.kleene_star.lang", "C05.*.terminates",
               "C05.*.no_foreign_exception"]
    ASSUMPTIONS = ["texts the documentation does not settle (empty text, empty group, binary operator without right operand, "
                   "consecutive operators, escapes glued to other characters, escaped blank/backslash) are only required "
                   "to give a Regex or MisformedRegexError"]
    HORIZON = 10.0

    def layers(self, tier, seed):
        nat = ["natural"]
        if tier == "quick":
            return [Layer("RE-tok(<=4)", lambda: GR.tok_texts(0, 4), policies=nat),
                    Layer("RE-ast(<=5)", lambda: GR.ast_cases(1, 5), policies=nat + ["1"]),
                    Layer("RE-ast: star over a concatenation of composite factors",
                          lambda: (("ast", "deep", i) for i in range(len(GR.asts("deep")))), policies=nat + ["1"]),
                    Layer("RE-pairs(<=3)", lambda: GR.pair_cases(3), policies=nat + ["1@used", "2"]),
                    Layer("RE-ast(<=4) combined with the empty-text regex",
                          lambda: (("pairE", c[1], c[2], 1, 0) for c in GR.ast_cases(1, 4)), policies=nat + ["1", "2", "3"])]
        return [Layer("RE-tok(<=5)", lambda: GR.tok_texts(0, 5), policies=nat),
                Layer("RE-ast(<=6)", lambda: GR.ast_cases(1, 6), policies=nat + ["1"]),
                Layer("RE-ast(7)", lambda: GR.ast_cases(7, 7), policies=nat),
                Layer("RE-ast: star over a concatenation of composite factors",
                      lambda: (("ast", "deep", i) for i in range(len(GR.asts("deep")))), policies=nat + ["1", "2"]),
                Layer("RE-pairs(<=4)", lambda: GR.pair_cases(4), policies=nat + ["1@used"]),
                Layer("RE-ast(<=5) combined with the empty-text regex",
                      lambda: (("pairE", c[1], c[2], 1, 0) for c in GR.ast_cases(1, 5)), policies=nat + ["1", "2", "3", "4"])]

    # ---- per-case data
    def texts(self, case):
        if case[0] == "tok":
            return [GR.tok_text(case)]
        ast = GR.asts(case[1])[case[2]]
        out = []
        for k, (c, a, red) in enumerate(GR.RENDERINGS):
            out.append(GR.render(ast, c, a, red, "$" if k % 2 else "epsilon"))
        return out

    def reference(self, case):
        if case[0] in ("pair", "pairE"):
            a, b = GR.asts(case[1])[case[2]], GR.asts(case[3])[case[4]]
            return {"kind": "PAIR", "a": a, "b": b}
        ts = self.texts(case)
        cl = [classify(t) for t in ts]
        if case[0] == "ast":
            ast = GR.asts(case[1])[case[2]]
            want = RX.to_nfa(ast)
            for t, c in zip(ts, cl):
                # self-check of the reference: every rendering must parse back (by the reference parser) to the same language
                assert c[0] == "WELL" and RN.distinguish(RX.to_nfa(c[1]), want) is None, (t, c, ast)
        return {"kind": cl[0][0], "cl": cl}

    def outcome(self, case, ref):
        if ref["kind"] == "PAIR":
            return ("PAIR", case[0], ref["a"][0], ref["b"][0])
        c = ref["cl"][0]
        return (c[0], repr(c[1])[:40])

    def nontrivial(self, case, ref):
        if ref["kind"] == "PAIR":
            return True
        c = ref["cl"][0]
        return c[0] == "WELL" and c[1][0] not in ("sym", "eps")

    def describe(self, case):
        if case[0] in ("pair", "pairE"):
            return {"pair": [GR.render(GR.asts(case[1])[case[2]]), "" if case[0] == "pairE" else GR.render(GR.asts(case[3])[case[4]])]}
        return {"texts": self.texts(case)[:3]}

    script = describe

    def thaw(self, case):
        return (case[0], tuple(case[1])) if case[0] == "tok" else tuple(case)

    # ---- checks
    def _lang(self, ctx, clause, regex, want_nfa, text):
        """regex: library Regex denoting want_nfa's language?  tree, accepts, enfa."""
        t = ctx.call(RX.from_lib, regex)
        if ctx.returns(t, clause + ".tree", text=text):
            w = RN.distinguish(want_nfa, RX.to_nfa(t.value))
            if w is not None:
                ctx.fail(clause + ".tree.lang" if clause == "C05" else clause + ".lang", text=text, witness=w,
                         should_accept=want_nfa.accepts(w), tree=repr(t.value)[:300])
        e = ctx.call(regex.to_epsilon_nfa)
        if ctx.returns(e, clause + ".to_epsilon_nfa", text=text):
            x = ctx.call(O.extract_fa, e.value)
            if ctx.returns(x, clause + ".to_epsilon_nfa.extract", text=text):
                w = RN.distinguish(want_nfa, x.value)
                if w is not None:
                    ctx.fail(clause + ".to_epsilon_nfa.lang", text=text, witness=w, should_accept=want_nfa.accepts(w))

    def check(self, case, ref, ctx):
        from pyformlang.regular_expression import Regex, MisformedRegexError
        if ref["kind"] == "PAIR":
            return self._pair(case, ref, ctx, Regex)
        for text, (kind, info) in zip(self.texts(case), ref["cl"]):
            r = ctx.call(Regex, text)
            if r.kind == "timeout":
                ctx.fail("C05.construct.terminates", text=text)
                continue
            if kind == "ILL":
                if r.ok or not isinstance(r.exc, MisformedRegexError):
                    ctx.fail("C05.ill_formed.exception_type", text=text, why=info, got=r.describe())
                continue
            if kind == "UNSPEC":
                if not r.ok and not isinstance(r.exc, MisformedRegexError):
                    ctx.fail("C05.unspecified.exception_type", text=text, why=info, got=r.describe())
                continue
            if not r.ok:
                ctx.fail("C05.construct", text=text, got=r.describe(), ast=repr(info)[:200])
                continue
            regex, ast = r.value, info
            want = RX.to_nfa(ast)
            self._lang(ctx, "C05", regex, want, text)
            for w in words_for(ast):
                a = ctx.call(regex.accepts, list(w))
                if ctx.returns(a, "C05.accepts", text=text, word=w) and a.value is not want.accepts(w):
                    ctx.fail("C05.accepts", text=text, word=w, got=a.value, want=want.accepts(w))
                    break
            # to_cfg
            g = ctx.call(regex.to_cfg)
            if ctx.returns(g, "C05.to_cfg", text=text):
                x = ctx.call(O.extract_cfg, g.value)
                if ctx.returns(x, "C05.to_cfg.extract", text=text):
                    syms = sorted(RX.symbols(ast))
                    got = x.value.lang_upto(4)
                    wantl = want.words_upto(4, syms)
                    if got != wantl:
                        ctx.fail("C05.to_cfg.lang", text=text, missing=sorted(wantl - got)[:3], extra=sorted(got - wantl)[:3])
                for w in words_for(ast):
                    c = ctx.call(g.value.contains, list(w))
                    if ctx.returns(c, "C05.to_cfg.contains", text=text, word=w) and c.value is not want.accepts(w):
                        ctx.fail("C05.to_cfg.contains", text=text, word=w, got=c.value, want=want.accepts(w))
                        break
            # a starting symbol named like the variables to_cfg invents for sub-expressions
            for start in ("A0", "A1"):
                g = ctx.call(regex.to_cfg, start)
                if ctx.returns(g, "C05.to_cfg", text=text, starting_symbol=start):
                    x = ctx.call(O.extract_cfg, g.value)
                    if ctx.returns(x, "C05.to_cfg.extract", text=text, starting_symbol=start):
                        syms = sorted(RX.symbols(ast))
                        got = x.value.lang_upto(3)
                        wantl = want.words_upto(3, syms)
                        if got != wantl:
                            ctx.fail("C05.to_cfg.lang", text=text, starting_symbol=start, missing=sorted(wantl - got)[:3],
                                     extra=sorted(got - wantl)[:3])
            # str() re-parses to an equivalent regex
            s = ctx.call(str, regex)
            if ctx.returns(s, "C05.str", text=text):
                r2 = ctx.call(Regex, s.value)
                if not r2.ok:
                    ctx.fail("C05.str.reparse", text=text, printed=s.value, got=r2.describe())
                else:
                    t2 = ctx.call(RX.from_lib, r2.value)
                    if ctx.returns(t2, "C05.str.reparse.tree", text=text):
                        w = RN.distinguish(want, RX.to_nfa(t2.value))
                        ctx.expect(w is None, "C05.str.reparse", text=text, printed=s.value, witness=w)

    def _pair(self, case, ref, ctx, Regex):
        a, b = ref["a"], ref["b"]
        ta, tb = GR.render(a), GR.render(b, ".", "+")
        same = a == b and case[1:3] == case[3:5]
        if case[0] == "pairE":
            # second operand: the regex of the empty text (what union()/concatenate() are built from internally); the
            # documentation does not say what it denotes, so its meaning is read off the library's own tree
            tb = ""
        ra = ctx.call(Regex, ta)
        rb = ra if same else ctx.call(Regex, tb)
        if not (ctx.returns(ra, "C05.construct", text=ta) and ctx.returns(rb, "C05.construct", text=tb)):
            return
        ra, rb = ra.value, rb.value
        if case[0] == "pairE":
            t = ctx.call(RX.from_lib, rb)
            if not ctx.returns(t, "C05.tree", text=tb):
                return
            b = t.value
        if ctx.variant == "used":
            # the operands have been used on their own before being combined
            ctx.call(ra.accepts, ["a"])
            ctx.call(rb.accepts, ["b"])
        for name, call, want in (("union", lambda: ra.union(rb), ("alt", a, b)),
                                 ("union.operator", lambda: ra | rb, ("alt", a, b)),
                                 ("concatenate", lambda: ra.concatenate(rb), ("cat", a, b)),
                                 ("concatenate.operator", lambda: ra + rb, ("cat", a, b)),
                                 ("kleene_star", lambda: ra.kleene_star(), ("star", a))):
            r = ctx.call(call)
            if ctx.returns(r, "C05." + name, a=ta, b=tb):
                self._lang(ctx, "C05." + name.split(".")[0], r.value, RX.to_nfa(want), ta + " ; " + tb)
                if "." not in name:
                    g = ctx.call(r.value.to_cfg)
                    if ctx.returns(g, "C05.%s.to_cfg" % name, a=ta, b=tb):
                        wn = RX.to_nfa(want)
                        ctx.batch_equal("C05.%s.to_cfg.contains" % name, lambda w: g.value.contains(list(w)),
                                        words_for(want, 2), lambda w: wn.accepts(w), a=ta, b=tb)
        if case[0] == "pairE":
            # the combinations used as operands again (nested combinators)
            for name, call, want in (("union.nested", lambda: ra.union(rb).concatenate(ra), ("cat", ("alt", a, b), a)),
                                     ("union.nested", lambda: rb.union(ra).concatenate(ra), ("cat", ("alt", b, a), a)),
                                     ("kleene_star.nested", lambda: ra.concatenate(rb.kleene_star().concatenate(ra)),
                                      ("cat", a, ("cat", ("star", b), a))),
                                     ("union.nested", lambda: ra.union(rb).concatenate(ra).kleene_star(),
                                      ("star", ("cat", ("alt", a, b), a)))):
                r = ctx.call(call)
                if ctx.returns(r, "C05." + name, a=ta, b=tb):
                    self._lang(ctx, "C05." + name.split(".")[0], r.value, RX.to_nfa(want), ta + " ; <empty text> (nested)")
                    g = ctx.call(r.value.to_cfg)
                    if ctx.returns(g, "C05.%s.to_cfg" % name, a=ta):
                        wn = RX.to_nfa(want)
                        ctx.batch_equal("C05.%s.to_cfg.contains" % name, lambda w: g.value.contains(list(w)),
                                        words_for(want, 3), lambda w: wn.accepts(w), a=ta, nested=True)
        # the operands still denote their own languages afterwards
        for rg, ast, t in ((ra, a, ta), (rb, b, tb)):
            wn = RX.to_nfa(ast)
            for w in words_for(ast, 1):
                x = ctx.call(rg.accepts, list(w))
                if ctx.returns(x, "C05.combinator.operand", text=t) and x.value is not wn.accepts(w):
                    ctx.fail("C05.combinator.operand_unchanged", text=t, word=w, got=x.value, want=wn.accepts(w))
                    break


PROP = C05()
