"""C19 -- objects behave as values: answers never depend on call history or aliasing.

Explicit-state search (vt/history.py): for every seed object and every history of <= D public calls (queries,
conversions, conversions of conversions, the object as both operands, mutations of returned objects) the
observation battery on the seed object must equal the battery on a freshly built twin, and the public structure of
the seed must be unchanged.  Returned objects are compared semantically (canonical minimal DFA / bounded
language / relation), never by invented names.
"""
from ..engine import Prop, Layer
from ..order import stable_repr
from ..refs import nfa as RN
from ..refs import regex as RX
from .. import observe as O
from .. import history as H

WA = [(), ("a",), ("b",), ("a", "b"), ("b", "a"), ("a", "a"), ("zz",), ("a", "zz")]


def canon(n):
    """canonical, hashable form of the language of a reference NFA"""
    m = RN.minimal_dfa(n, sorted(n.alphabet, key=repr))
    return (m[0], tuple(sorted(m[2].items(), key=repr)), tuple(sorted(m[3])))


def first_state(a):
    return sorted(a.states, key=stable_repr)[0]


def push(w, obj):
    w["d"].append(obj)
    del w["d"][:-2]


def last(w, kind=None):
    for o in reversed(w["d"]):
        if kind is None or type(o).__name__ in kind:
            return o
    raise Disabled()


class Disabled(Exception):
    pass


class Domain:
    DISABLED = Disabled
    BATTERY = 10

    @staticmethod
    def diff(a, b):
        if isinstance(a, tuple) and isinstance(b, tuple) and len(a) == len(b):
            for x, y in zip(a, b):
                if x != y:
                    return "expected %s, got %s" % (repr(x)[:300], repr(y)[:300])
        return "expected %s, got %s" % (repr(a)[:300], repr(b)[:300])


# ------------------------------------------------------------------ finite automata
FA_KINDS = ("EpsilonNFA", "NondeterministicFiniteAutomaton", "DeterministicFiniteAutomaton")


class FADomain(Domain):
    BATTERY = 16

    def seeds(self):
        m = O.lib()

        def enfa():
            a = m.EpsilonNFA()
            a.add_transitions([(0, "a", 1), (1, "epsilon", 2), (2, "b", 0), (2, "epsilon", 1), (3, "a", 3)])
            a.add_start_state(0)
            a.add_start_state(3)
            a.add_final_state(2)
            return {"x": a, "d": []}

        def nfa():
            a = m.NondeterministicFiniteAutomaton()
            a.add_transitions([("p", "a", "p"), ("p", "a", "q"), ("q", "b", "r")])
            a.add_start_state("p")
            a.add_final_state("r")
            a.add_final_state("p")
            return {"x": a, "d": []}

        def dfa():
            a = m.DeterministicFiniteAutomaton()
            a.add_transitions([(0, "a", 1), (1, "b", 0), (1, "a", 2)])
            a.add_start_state(0)
            a.add_final_state(1)
            return {"x": a, "d": []}

        def empty():
            a = m.EpsilonNFA()
            a.add_transitions([(0, "a", 1)])
            a.add_start_state(0)
            return {"x": a, "d": []}
        return [("enfa with epsilon cycle and two start states", enfa), ("nfa", nfa), ("dfa", dfa), ("empty language", empty)]

    def ops(self):
        def conv(name):
            return (name, lambda w: push(w, getattr(w["x"], name)()))

        def mut_add_transition(w):
            d = last(w, FA_KINDS)
            s = first_state(d)
            d.add_transition(s, "b", s)

        def mut_final(w):
            d = last(w, FA_KINDS)
            d.add_final_state(first_state(d))

        def mut_unfinal(w):
            d = last(w, FA_KINDS)
            for s in sorted(d.final_states, key=stable_repr)[:1]:
                d.remove_final_state(s)

        def mut_start(w):
            d = last(w, FA_KINDS)
            d.add_start_state(sorted(d.states, key=stable_repr)[-1])
        def mut_remove_eps(w):
            d = last(w, FA_KINDS)
            m = O.lib()
            for p, a, q in sorted(d, key=stable_repr):
                if isinstance(a, m.Epsilon):
                    d.remove_transition(p, a, q)
                    return
            raise Disabled()

        def mut_remove_sym(w):
            d = last(w, FA_KINDS)
            for p, a, q in sorted(d, key=stable_repr)[:1]:
                d.remove_transition(p, a, q)
                return
            raise Disabled()
        return [("accepts(ab)", lambda w: w["x"].accepts(["a", "b"])),
                ("derived.accepts(ab)", lambda w: last(w, FA_KINDS).accepts(["a", "b"])),
                ("derived.kleene_star (result dropped)", lambda w: last(w, FA_KINDS).kleene_star()),
                ("derived.remove_transition(epsilon edge)", mut_remove_eps),
                ("derived.remove_transition(first edge)", mut_remove_sym),
                ("is_empty", lambda w: w["x"].is_empty()),
                ("is_acyclic", lambda w: w["x"].is_acyclic()),
                ("get_accepted_words(2)", lambda w: list(w["x"].get_accepted_words(2))),
                conv("to_deterministic"), conv("minimize"), conv("remove_epsilon_transitions"), conv("copy"),
                conv("to_regex"), conv("get_complement"), conv("reverse"), conv("kleene_star"), conv("to_fst"),
                ("x & x", lambda w: push(w, w["x"] & w["x"])),
                ("x - x", lambda w: push(w, w["x"] - w["x"])),
                ("x.union(x)", lambda w: push(w, w["x"].union(w["x"]))),
                ("x & derived", lambda w: push(w, w["x"] & last(w, FA_KINDS))),
                ("x & derived (result dropped)", lambda w: w["x"] & last(w, FA_KINDS)),
                ("derived - x (result dropped)", lambda w: last(w, FA_KINDS) - w["x"]),
                ("x.is_equivalent_to(derived)", lambda w: w["x"].is_equivalent_to(last(w, FA_KINDS))),
                ("derived.to_deterministic", lambda w: push(w, last(w, FA_KINDS).to_deterministic())),
                ("derived.minimize", lambda w: push(w, last(w, FA_KINDS).minimize())),
                ("derived.add_transition", mut_add_transition), ("derived.add_final_state", mut_final),
                ("derived.remove_final_state", mut_unfinal), ("derived.add_start_state", mut_start)]

    LIGHT = True

    def observe(self, w, light=False):
        x = w["x"]
        e = O.extract_fa(x)
        snap = (frozenset(e.trans), frozenset(e.starts), frozenset(e.finals), frozenset(e.states))
        words = tuple(sorted(tuple(s.value for s in ww) for ww in x.get_accepted_words(2)))
        if light:
            return (("structure", snap), ("derived automata answer according to their structure", self._consistent(w, x, e)),
                    ("accepts", tuple(x.accepts(list(i)) for i in WA)), ("is_empty", x.is_empty()),
                    ("is_deterministic", x.is_deterministic()), ("is_acyclic", x.is_acyclic()), ("words<=2", words),
                    ("to_deterministic language", canon(O.extract_fa(x.to_deterministic()))))
        langs = tuple(canon(O.extract_fa(f())) for f in (x.to_deterministic, x.minimize, x.remove_epsilon_transitions,
                                                         x.copy, x.reverse, x.get_complement, lambda: x & x))
        rg = canon(RX.to_nfa(RX.from_lib(x.to_regex())))
        f = x.to_fst()
        rel = tuple(tuple(sorted(map(tuple, f.translate(list(i))))) for i in ((), ("a",), ("a", "b")))
        consistent = self._consistent(w, x, e)
        return (("structure", snap), ("derived automata answer according to their structure", consistent),
                ("accepts", tuple(x.accepts(list(i)) for i in WA)), ("is_empty", x.is_empty()),
                ("is_deterministic", x.is_deterministic()), ("is_acyclic", x.is_acyclic()), ("words<=2", words),
                ("conversion languages", langs), ("to_regex language", rg), ("to_fst relation", rel))

    @staticmethod
    def _consistent(w, x, e):
        # every automaton of the world must answer according to its own public structure (a derived, possibly
        # mutated object is compared with "a freshly built equal object": the reference semantics of its extraction)
        consistent = True
        for d in w["d"]:
            if type(d).__name__ in FA_KINDS:
                r = O.extract_fa(d)
                if any(d.accepts(list(i)) is not r.accepts(i) for i in WA) or d.is_empty() is not r.is_empty():
                    consistent = False
                from .c03 import ref_star
                if d is w["d"][-1] and len(r.states) <= 5 and \
                        canon(O.extract_fa(d.kleene_star())) != canon(ref_star(r)):
                    consistent = False
                if d is w["d"][-1]:
                    # the product with the seed must be the intersection of the two *current* structures
                    if RN.distinguish_op(e, r, O.extract_fa(x & d), lambda p, q: p and q) is not None:
                        consistent = False
        return consistent


# ------------------------------------------------------------------ regular expressions
class RegexDomain(Domain):
    BATTERY = 8
    TEXTS = ["a|b c*", "(a b)*", "a", "$|a a"]

    def seeds(self):
        from pyformlang.regular_expression import Regex

        def mk(t):
            return lambda: {"x": Regex(t), "r2": Regex("b"), "d": []}
        return [(t, mk(t)) for t in self.TEXTS]

    def ops(self):
        RK = ("Regex",)
        EK = ("EpsilonNFA",)

        def mut(w):
            d = last(w, EK)
            s = sorted(d.states, key=stable_repr)
            d.add_transition(s[0], "zz", s[-1])
            for st in list(d.start_states):
                d.add_final_state(st)
        return [("accepts(a)", lambda w: w["x"].accepts(["a"])),
                ("to_epsilon_nfa", lambda w: push(w, w["x"].to_epsilon_nfa())),
                ("to_cfg", lambda w: push(w, w["x"].to_cfg())),
                ("str", lambda w: str(w["x"])),
                ("x.union(x)", lambda w: push(w, w["x"].union(w["x"]))),
                ("x.union(r2)", lambda w: push(w, w["x"] | w["r2"])),
                ("r2.concatenate(x)", lambda w: push(w, w["r2"] + w["x"])),
                ("x.kleene_star", lambda w: push(w, w["x"].kleene_star())),
                ("derived.accepts(b)", lambda w: last(w, RK).accepts(["b"])),
                ("derived.to_epsilon_nfa", lambda w: push(w, last(w, RK).to_epsilon_nfa())),
                ("derived.kleene_star", lambda w: push(w, last(w, RK).kleene_star())),
                ("mutate returned epsilon-NFA", mut)]

    def observe(self, w):
        x, r2 = w["x"], w["r2"]
        out = [("accepts", tuple(x.accepts(list(i)) for i in WA)), ("r2.accepts", tuple(r2.accepts(list(i)) for i in WA[:4])),
               ("str", str(x)), ("tree language", canon(RX.to_nfa(RX.from_lib(x)))),
               ("to_epsilon_nfa language", canon(O.extract_fa(x.to_epsilon_nfa()))),
               ("to_cfg language", tuple(sorted(O.extract_cfg(x.to_cfg()).lang_upto(3)))),
               ("accepts after conversions", tuple(x.accepts(list(i)) for i in WA))]
        return tuple(out)


# ------------------------------------------------------------------ context-free grammars
class CFGDomain(Domain):
    BATTERY = 22
    TEXTS = ["S -> a S b | $", "S -> A | b\nA -> S | a A", "S -> A B\nA -> a\nB -> b | B B", "S -> S a\nA -> b",
             "S -> a b a S | b b a | A\nA -> $ | a", "S -> A B\nA -> a A | $\nB -> b B | c"]

    def seeds(self):
        m = O.cfgmod()
        fa = O.lib()

        def mk(t):
            def build():
                d1 = fa.DeterministicFiniteAutomaton()
                d1.add_transitions([(0, "a", 1), (1, "b", 0), (1, "a", 1)])
                d1.add_start_state(0)
                d1.add_final_state(0)
                d1.add_final_state(1)
                d2 = d1.copy()           # shares State objects with d1
                d2.add_transition(0, "b", 0)
                d3 = fa.DeterministicFiniteAutomaton()        # does not know the terminal b
                d3.add_transitions([(0, "a", 0)])
                d3.add_start_state(0)
                d3.add_final_state(0)
                return {"x": m.CFG.from_text(t), "dfa1": d1, "dfa2": d2, "dfa3": d3, "d": []}
            return build
        return [(t.replace("\n", "; "), mk(t)) for t in self.TEXTS]

    def ops(self):
        m = O.cfgmod()
        CK = ("CFG",)

        def conv(name):
            return (name, lambda w: push(w, getattr(w["x"], name)()))

        def q(name, *a):
            return ("%s%r" % (name, a), lambda w: getattr(w["x"], name)(*a))
        return [q("contains", ["a", "b"]), q("contains", []), q("contains", ["b"]), q("generate_epsilon"), q("is_empty"),
                q("is_finite"), q("get_generating_symbols"), q("get_nullable_symbols"), q("get_reachable_symbols"),
                ("get_words(2)", lambda w: list(w["x"].get_words(2))),
                conv("remove_useless_symbols"), conv("remove_epsilon"), conv("eliminate_unit_productions"),
                conv("to_normal_form"), conv("to_pda"), conv("reverse"), conv("get_closure"),
                ("to_pda().to_cfg()", lambda w: push(w, w["x"].to_pda().to_cfg())),
                ("intersection(dfa1)", lambda w: push(w, w["x"].intersection(w["dfa1"]))),
                ("intersection(dfa2)", lambda w: push(w, w["x"].intersection(w["dfa2"]))),
                ("intersection(dfa3 over {a} only)", lambda w: push(w, w["x"].intersection(w["dfa3"]))),
                ("x | x", lambda w: push(w, w["x"] | w["x"])),
                ("x + x", lambda w: push(w, w["x"] + w["x"])),
                ("substitute(a -> x)", lambda w: push(w, w["x"].substitute({m.Terminal("a"): w["x"]}))),
                ("derived.contains(ab)", lambda w: last(w, CK).contains(["a", "b"])),
                ("derived.to_normal_form", lambda w: push(w, last(w, CK).to_normal_form())),
                ("derived.intersection(dfa1)", lambda w: push(w, last(w, CK).intersection(w["dfa1"]))),
                ("derived.get_words(1)", lambda w: list(last(w, CK).get_words(1)))]

    @staticmethod
    def _derived_consistent(w):
        for d in w["d"]:
            if type(d).__name__ != "CFG":
                continue
            r = O.extract_cfg(d)
            lang = r.lang_upto(3)
            if d.is_empty() is not r.is_empty():
                return False
            if any(d.contains(list(i)) is not (i in lang) for i in WA[:6]):
                return False
        return True

    LIGHT = True

    def observe(self, w, light=False):
        x = w["x"]
        if light:
            e = O.extract_cfg(x)

            def symset(s):
                return tuple(sorted((type(y).__name__, stable_repr(y.value)) for y in s))
            return (("structure", (e.start, tuple(e.prods), frozenset(e.variables), frozenset(e.terminals))),
                    ("is_empty", x.is_empty()), ("contains", tuple(x.contains(list(i)) for i in WA)),
                    ("generate_epsilon", x.generate_epsilon()), ("nullable", symset(x.get_nullable_symbols())),
                    ("generating", symset(x.get_generating_symbols())),
                    ("get_words(2)", tuple(sorted(tuple(t.value for t in ww) for ww in x.get_words(2)))),
                    ("derived grammars answer according to their productions", self._derived_consistent(w)))

        def lang(g, n=3, drop_eps=False):
            l = O.extract_cfg(g).lang_upto(n)
            return tuple(sorted(l - {()} if drop_eps else l))

        def symset(s):
            return tuple(sorted((type(y).__name__, stable_repr(y.value)) for y in s))
        e = O.extract_cfg(x)
        snap = (e.start, tuple(e.prods), frozenset(e.variables), frozenset(e.terminals))
        words = tuple(sorted(tuple(t.value for t in ww) for ww in x.get_words(2)))
        pda = O.extract_pda(x.to_pda())
        return (("structure", snap), ("contains", tuple(x.contains(list(i)) for i in WA)),
                ("generate_epsilon", x.generate_epsilon()), ("is_empty", x.is_empty()), ("is_finite", x.is_finite()),
                ("generating", symset(x.get_generating_symbols())), ("nullable", symset(x.get_nullable_symbols())),
                ("reachable", symset(x.get_reachable_symbols())), ("get_words(2)", words),
                ("remove_useless_symbols", lang(x.remove_useless_symbols())), ("remove_epsilon", lang(x.remove_epsilon(), 3, True)),
                ("eliminate_unit_productions", lang(x.eliminate_unit_productions())),
                ("to_normal_form", lang(x.to_normal_form(), 3, True)), ("to_pda", tuple(sorted(pda.lang_empty_stack(2)))),
                ("reverse", lang(x.reverse())), ("x | x", lang(x | x)), ("intersection(dfa1)", lang(x.intersection(w["dfa1"]))),
                ("intersection(dfa2)", lang(x.intersection(w["dfa2"]))),
                ("dfa1 unchanged", canon(O.extract_fa(w["dfa1"]))), ("dfa2 unchanged", canon(O.extract_fa(w["dfa2"]))),
                ("contains after conversions", tuple(x.contains(list(i)) for i in WA)),
                ("derived grammars answer according to their productions", self._derived_consistent(w)))


# ------------------------------------------------------------------ pushdown automata
class PDADomain(Domain):
    BATTERY = 8

    def seeds(self):
        m = O.pdamod()
        fa = O.lib()

        def dfa():
            d = fa.DeterministicFiniteAutomaton()
            d.add_transitions([(0, "a", 0), (0, "b", 1), (1, "b", 1)])
            d.add_start_state(0)
            d.add_final_state(1)
            return d

        def anbn():
            p = m.PDA(states={"q0", "q1", "q2"}, start_state="q0", start_stack_symbol="Z", final_states={"q2"})
            p.add_transitions([("q0", "a", "Z", "q0", ["X", "Z"]), ("q0", "a", "X", "q0", ["X", "X"]),
                               ("q0", "b", "X", "q1", []), ("q1", "b", "X", "q1", []), ("q1", "epsilon", "Z", "q2", [])])
            return {"x": p, "dfa": dfa(), "d": []}

        def nondet():
            p = m.PDA(states={0, 1}, start_state=0, start_stack_symbol="Z", final_states={1})
            p.add_transitions([(0, "a", "Z", 0, ["Z"]), (0, "epsilon", "Z", 1, []), (0, "b", "Z", 1, ["Z", "Z"]),
                               (1, "b", "Z", 1, [])])
            return {"x": p, "dfa": dfa(), "d": []}
        return [("a^n b^n", anbn), ("nondeterministic with epsilon moves", nondet)]

    def ops(self):
        PK = ("PDA",)

        def conv(name):
            return (name, lambda w: push(w, getattr(w["x"], name)()))

        def mut_t(w):
            d = last(w, PK)
            s = sorted(d.states, key=stable_repr)[0]
            d.add_transition(s, "a", "Z", s, [])

        def mut_f(w):
            d = last(w, PK)
            d.add_final_state(sorted(d.states, key=stable_repr)[0])
        return [conv("to_cfg"), conv("to_final_state"), conv("to_empty_stack"),
                ("intersection(dfa)", lambda w: push(w, w["x"].intersection(w["dfa"]))),
                ("to_networkx", lambda w: w["x"].to_networkx()),
                ("derived.to_final_state", lambda w: push(w, last(w, PK).to_final_state())),
                ("derived.to_empty_stack", lambda w: push(w, last(w, PK).to_empty_stack())),
                ("derived.to_cfg", lambda w: push(w, last(w, PK).to_cfg())),
                ("derived.add_transition", mut_t), ("derived.add_final_state", mut_f),
                # to_dict() is a conversion to a plain dictionary: emptying the result must not touch the PDA
                ("to_dict() emptied", lambda w: w["x"].to_dict().clear())]

    def observe(self, w):
        x = w["x"]
        e = O.extract_pda(x)
        snap = (tuple(e.trans), e.start, e.start_stack, frozenset(e.finals), frozenset(e.states))
        return (("structure", snap), ("to_cfg", tuple(sorted(O.extract_cfg(x.to_cfg()).lang_upto(3)))),
                ("to_final_state", tuple(sorted(O.extract_pda(x.to_final_state()).lang_final_state(3)))),
                ("to_empty_stack", tuple(sorted(O.extract_pda(x.to_empty_stack()).lang_empty_stack(3)))),
                ("intersection(dfa)", tuple(sorted(O.extract_pda(x.intersection(w["dfa"])).lang_final_state(3)))),
                ("dfa unchanged", canon(O.extract_fa(w["dfa"]))),
                ("to_cfg again", tuple(sorted(O.extract_cfg(x.to_cfg()).lang_upto(3)))))


# ------------------------------------------------------------------ transducers
class FSTDomain(Domain):
    BATTERY = 8

    def seeds(self):
        from pyformlang.fst import FST

        def one():
            f = FST()
            f.add_transitions([("s", "a", "t", ["x"]), ("t", "b", "s", ["y"]), ("t", "epsilon", "u", [])])
            f.add_start_state("s")
            f.add_final_state("u")
            f.add_final_state("s")
            return {"x": f, "d": []}

        def two():
            f = FST()
            f.add_transitions([(0, "a", 0, ["x", "y"]), (0, "a", 1, []), (1, "b", 1, ["y"])])
            f.add_start_state(0)
            f.add_start_state(1)
            f.add_final_state(1)
            return {"x": f, "d": []}
        return [("loop with epsilon exit", one), ("nondeterministic, int states", two)]

    def ops(self):
        FK = ("FST",)

        def mut(w):
            d = last(w, FK)
            s = sorted(d.states, key=stable_repr)
            d.add_transition(s[0], "a", s[-1], ["y"])
            d.add_final_state(s[0])
            d.add_start_state(s[-1])
        return [("translate(ab)", lambda w: list(w["x"].translate(["a", "b"]))),
                ("x.union(x)", lambda w: push(w, w["x"].union(w["x"]))),
                ("x.concatenate(x)", lambda w: push(w, w["x"] + w["x"])),
                ("x.kleene_star", lambda w: push(w, w["x"].kleene_star())),
                ("to_networkx", lambda w: w["x"].to_networkx()),
                ("derived.translate(a)", lambda w: list(last(w, FK).translate(["a"]))),
                ("derived.kleene_star", lambda w: push(w, last(w, FK).kleene_star())),
                ("mutate derived", mut)]

    def observe(self, w):
        x = w["x"]
        e = O.extract_fst(x)
        ins = [(), ("a",), ("a", "b"), ("a", "b", "a")]
        rel = lambda f: tuple(tuple(sorted(map(tuple, f.translate(list(i))))) for i in ins)
        ext = lambda f: tuple(tuple(sorted(O.extract_fst(f).relation(i))) for i in ins[:3])
        return (("structure", (tuple(e.trans), frozenset(e.starts), frozenset(e.finals), frozenset(e.states))),
                ("translate", rel(x)), ("union", ext(x.union(x))), ("concatenate", ext(x + x)), ("kleene_star", ext(x.kleene_star())),
                ("translate again", rel(x)))


# ------------------------------------------------------------------ indexed grammars
class IGDomain(Domain):
    """The seed grammar's Rules object has public mutators (add_production / remove_production): they are part of the
    alphabet.  The world carries the rule list the grammar should now have ("spec"); the battery on the seed object is
    compared with the battery on a twin freshly built from that list."""
    BATTERY = 12
    LIGHT = True

    @staticmethod
    def _build(spec, optim=7):
        from pyformlang.indexed_grammar import (IndexedGrammar, Rules, EndRule, ProductionRule, ConsumptionRule,
                                                DuplicationRule)
        mk = {"prod": ProductionRule, "cons": ConsumptionRule, "end": EndRule, "dup": DuplicationRule}
        return IndexedGrammar(Rules([mk[r[0]](*r[1:]) for r in spec], optim))

    def seeds(self):
        from pyformlang.regular_expression import Regex

        def g1():
            spec = [("prod", "S", "A", "f"), ("cons", "f", "A", "B"), ("end", "B", "a"), ("dup", "A", "B", "B")]
            return {"x": self._build(spec), "re": Regex("a a*"), "d": [], "spec": spec}

        def g2():
            spec = [("prod", "S", "A", "f"), ("cons", "g", "A", "B"), ("end", "B", "a")]
            return {"x": self._build(spec), "re": Regex("a"), "d": [], "spec": spec}
        def g3():
            spec = [("prod", "S", "A", "f"), ("end", "A", "a")]
            return {"x": self._build(spec, 0), "re": Regex("a"), "d": [], "spec": spec, "optim": 0}
        def g4():
            # replacing S -> A[f] by S -> A[g] (same rule counts) makes this one empty
            spec = [("prod", "S", "A", "f"), ("cons", "f", "A", "B"), ("end", "B", "a")]
            return {"x": self._build(spec), "re": Regex("a"), "d": [], "spec": spec}
        return [("non-empty through push/pop", g1), ("empty: wrong index", g2), ("optim 0, no consumption rule", g3),
                ("non-empty through one push/pop, no other way", g4)]

    @staticmethod
    def _add(w, l, r, p):
        if ("prod", l, r, p) in w["spec"]:
            raise Disabled()        # add_production appends without looking, Rules() drops repeated rules: not comparable
        w["x"].rules.add_production(l, r, p)
        w["spec"] = w["spec"] + [("prod", l, r, p)]

    @staticmethod
    def _remove(w, l, r, p):
        w["x"].rules.remove_production(l, r, p)
        w["spec"] = [x for x in w["spec"] if x != ("prod", l, r, p)]

    def ops(self):
        IK = ("IndexedGrammar",)
        return [("is_empty", lambda w: w["x"].is_empty()),
                ("remove_useless_rules", lambda w: push(w, w["x"].remove_useless_rules())),
                ("intersection(regex)", lambda w: push(w, w["x"].intersection(w["re"]))),
                ("get_generating_non_terminals", lambda w: w["x"].get_generating_non_terminals()),
                ("derived.is_empty", lambda w: last(w, IK).is_empty()),
                ("derived.remove_useless_rules", lambda w: push(w, last(w, IK).remove_useless_rules())),
                ("rules.add_production(S,A,g)", lambda w: self._add(w, "S", "A", "g")),
                ("rules.remove_production(S,A,g)", lambda w: self._remove(w, "S", "A", "g")),
                ("rules.remove_production(S,A,f)", lambda w: self._remove(w, "S", "A", "f")),
                ("derived.rules.remove_production(S,A,f)", lambda w: last(w, IK).rules.remove_production("S", "A", "f"))]

    @staticmethod
    def rules_snapshot(g):
        out = []
        for r in list(g.rules.rules) + [c for cs in g.rules.consumption_rules.values() for c in cs]:
            if r.is_consumption():
                out.append(("cons", r.f_parameter, r.left_term, r.right))
            elif r.is_production():
                out.append(("prod", r.left_term, r.right_term, r.production))
            elif r.is_duplication():
                out.append(("dup", r.left_term) + tuple(r.right_terms))
            else:
                out.append(("end", r.left_term, stable_repr(r.right_term)))
        return tuple(sorted(set(out), key=repr))      # as a set: Rules() itself drops repeated rules, add_production does not

    def _battery(self, x, re, light=False):
        if light:
            return (("rules", self.rules_snapshot(x)), ("rules.length", x.rules.length), ("is_empty", x.is_empty()),
                    ("remove_useless_rules().is_empty", x.remove_useless_rules().is_empty()), ("is_empty again", x.is_empty()))
        return (("rules", self.rules_snapshot(x)), ("rules.length", x.rules.length), ("is_empty", x.is_empty()),
                ("remove_useless_rules().is_empty", x.remove_useless_rules().is_empty()),
                ("intersection.is_empty", x.intersection(re).is_empty()),
                ("regex unchanged", tuple(re.accepts(list(i)) for i in WA[:4])), ("is_empty again", x.is_empty()))

    def observe(self, w, light=False):
        from pyformlang.regular_expression import Regex
        got = self._battery(w["x"], w["re"], light)
        want = self._battery(self._build(w["spec"], w.get("optim", 7)), Regex("a a*" if ("dup", "A", "B", "B") in w["spec"] else "a"), light)
        return tuple((k, "as on a fresh twin" if v == v2 else {"seed object": v, "fresh twin": v2})
                     for (k, v), (_, v2) in zip(got, want))


def dfa_alias_history(hist):
    """The history mutates the object returned by DeterministicFiniteAutomaton.to_deterministic(), which is the
    automaton itself (documented: 'does nothing if the automaton is already deterministic', pinned by the
    repository's test_can_create)."""
    alias = False
    for op in hist:
        if op == "to_deterministic":
            alias = True
        elif op == "derived.to_deterministic":
            pass
        elif op.startswith("derived.add_") or op.startswith("derived.remove_"):
            if alias:
                return True
        elif op in ("minimize", "remove_epsilon_transitions", "copy", "get_complement", "reverse",
                    "kleene_star", "x & x", "x - x", "x.union(x)", "x & derived", "derived.minimize"):
            alias = False       # a new automaton becomes the last derived automaton (to_regex / to_fst results are not automata)
    return False


DOMAINS = {"fa": FADomain(), "regex": RegexDomain(), "cfg": CFGDomain(), "pda": PDADomain(), "fst": FSTDomain(),
           "ig": IGDomain()}


class C19(Prop):
    ID = "C19"
    RULE = ("breadth-first search over call histories on real objects: for each of 19 seed objects (automata, regexes, "
            "grammars, PDAs, transducers, indexed grammars) every sequence of <= D operations from the class alphabet "
            "(queries, conversions, conversions of conversions, the same object as both operands, mutations of returned "
            "objects and, for indexed grammars, of the seed's own Rules object); states deduplicated by a deep structural fingerprint of the world (private caches and aliasing "
            "included); in every state the observation battery on the seed object is compared with the battery on a "
            "freshly built twin; non-trivial = history of length >= 2")
    BOUNDS = "history depth <= 3 (quick) / <= 4 (thorough, regex/pda/fst/ig) ; alphabets of 6-27 operations per class"
    CLAUSES = ["C19.<class>.history_independence", "C19.<class>.search_truncated"]
    ASSUMPTIONS = ["equal fingerprints have equal futures (the code is deterministic under a fixed order policy)",
                   "an operation that raises on its own is not extended (other properties cover it)"]
    HORIZON = 300.0
    CHUNK = 1
    DEPTH = {"quick": {"fa": 3, "regex": 3, "cfg": 3, "pda": 3, "fst": 3, "ig": 3},
             "thorough": {"fa": 3, "regex": 4, "cfg": 3, "pda": 4, "fst": 4, "ig": 4}}

    def layers(self, tier, seed):
        ls = []
        for cls, dom in DOMAINS.items():
            def gen(cls=cls, dom=dom):
                nops = len(dom.ops())
                for si in range(len(dom.seeds())):
                    for oi in range(nops):
                        yield (cls, si, oi, self.DEPTH[tier][cls])
            ls.append(Layer("%s: histories <= %d" % (cls, self.DEPTH[tier][cls]), gen,
                            policies=["natural", "1"] if tier == "quick" else ["natural", "1", "2"]))
        return ls

    def reference(self, case):
        return {"cls": case[0]}

    def outcome(self, case, ref):
        return (case[0], case[1], case[2])

    def describe(self, case):
        dom = DOMAINS[case[0]]
        return {"class": case[0], "seed": dom.seeds()[case[1]][0], "first operation": dom.ops()[case[2]][0], "depth": case[3]}

    script = describe

    def thaw(self, case):
        return tuple(case)

    def check(self, case, ref, ctx):
        cls, si, oi, depth = case
        dom = DOMAINS[cls]
        r = ctx.call(H.explore, dom, si, [oi], depth)
        if not ctx.returns(r, "C19.%s.search" % cls):
            return
        states, transitions, fails, truncated = r.value
        ctx.ops += transitions
        ctx.notes["history_states"] = ctx.notes.get("history_states", 0) + states
        if truncated:
            ctx.notes["truncated_searches"] = ctx.notes.get("truncated_searches", 0) + 1
        seen = set()
        for hist, what in fails:
            key = (what[:80], dfa_alias_history(hist))
            if key in seen:
                continue
            seen.add(key)
            ctx.fail("C19.%s.history_independence" % cls, history=hist, difference=what, _key="/".join(hist))
            if len(seen) >= 12:
                break


    @property
    def SCOPES(self):
        return {"dfa_to_deterministic_returns_self":
                lambda f: f["case"][0] == "fa" and f["case"][1] == 2 and dfa_alias_history(f["detail"].get("history", []))}


PROP = C19()
