"""C18 -- feature grammars: unification is the glb and membership respects unification."""
from itertools import product

from ..engine import Prop, Layer, SKIP
from ..gen import fs as GS
from ..gen import cfg as GC
from ..refs import fs as RS
from ..refs import cfg as RC
from ..refs import nfa as RN
from .. import observe as O

W3 = [tuple(w) for w in RN.all_words(["a", "b"], 3)]
ANN = ["", "[F=p]", "[F=q]", "[F=?x]"]      # annotation index -> text
_SK = {}
_FS = None


def fs_pool():
    global _FS
    if _FS is None:
        _FS = list(GS.fs_cases())
    return _FS


def skeletons(pmax):
    if pmax not in _SK:
        out = []
        for c in GC.cfg_cases(2, 2, 2, 0, pmax):
            if not GC.is_rep(c):
                continue
            r = RC.from_case(c)
            if r.is_empty() or set(r.variables) != r.useful_variables():
                continue
            out.append(c)
        _SK[pmax] = out
    return _SK[pmax]


# skeletons with three variables in which a constituent has two derivations over the same span, one of them
# through another variable (so that the same chart state is reached with bound and with unbound features)
AGREEMENT = [(3, 2, ((0, (1, 2)), (1, (2,)), (1, (3,)), (2, (3,)), (2, (4,)))),     # S -> A B; A -> B | a; B -> a | b
             (3, 2, ((0, (1, 4)), (1, (2,)), (1, (3,)), (2, (3,))))]                # S -> A b; A -> B | a; B -> a


def agreement_cases(max_annotated):
    for si, sk in enumerate(AGREEMENT):
        pos = positions(sk)
        for ann in product(range(4), repeat=len(pos)):
            if sum(1 for a in ann if a) <= max_annotated:
                yield ("fcfg", -1, si, ann)


def skeleton(case):
    return AGREEMENT[case[2]] if case[1] == -1 else skeletons(case[1])[case[2]]


def positions(sk):
    """variable occurrences of a skeleton: (production index, -1 for the head / body index)"""
    out = []
    for pi, (h, body) in enumerate(sk[2]):
        out.append((pi, -1))
        for bi, s in enumerate(body):
            if s < sk[0]:
                out.append((pi, bi))
    return out


def fcfg_cases(pmax, max_annotated):
    for si, sk in enumerate(skeletons(pmax)):
        pos = positions(sk)
        for ann in product(range(4), repeat=len(pos)):
            if sum(1 for a in ann if a) <= max_annotated:
                yield ("fcfg", pmax, si, ann)


def fcfg_text(sk, ann):
    vn, tn = GC.names(sk)
    pos = positions(sk)
    amap = dict(zip(pos, ann))
    lines = []
    for pi, (h, body) in enumerate(sk[2]):
        head = vn[h] + ANN[amap[(pi, -1)]]
        parts = []
        for bi, s in enumerate(body):
            parts.append(vn[s] + ANN[amap[(pi, bi)]] if s < sk[0] else tn[s - sk[0]])
        lines.append("%s -> %s" % (head, " ".join(parts) if parts else "$"))
    return "\n".join(lines)


def fcfg_reference(sk, ann):
    """Instantiate every feature variable (named ?x: shared within the production; unannotated position: a fresh one)
    over {p, q} -> plain grammar over non-terminals (X, value)."""
    vn, tn = GC.names(sk)
    pos = positions(sk)
    amap = dict(zip(pos, ann))
    prods = []
    for pi, (h, body) in enumerate(sk[2]):
        occ = [(-1, h)] + [(bi, s) for bi, s in enumerate(body) if s < sk[0]]
        free = [o for o in occ if amap[(pi, o[0])] == 0]
        for x in ("p", "q"):                       # value of ?x in this production
            for fv in product(("p", "q"), repeat=len(free)):
                val = {}
                fi = 0
                for o in occ:
                    a = amap[(pi, o[0])]
                    if a == 0:
                        val[o[0]] = fv[fi]
                        fi += 1
                    elif a == 1:
                        val[o[0]] = "p"
                    elif a == 2:
                        val[o[0]] = "q"
                    else:
                        val[o[0]] = x
                head = ("V", (vn[h], val[-1]))
                b = tuple(("V", (vn[s], val[bi])) if s < sk[0] else ("T", tn[s - sk[0]]) for bi, s in enumerate(body))
                prods.append((head, b))
    start = ("V", "START")
    prods += [(start, (("V", (vn[0], v)),)) for v in ("p", "q")]
    return RC.Gram(start, prods)


def lib_observable(fs, max_depth=4):
    paths, atoms, by_node = set(), {}, {}
    todo = [((), fs.get_dereferenced())]
    while todo:
        p, n = todo.pop()
        paths.add(p)
        atoms[p] = n.value
        by_node.setdefault(id(n), set()).add(p)
        if len(p) < max_depth:
            for f, c in n.content.items():
                todo.append((p + (f,), c.get_dereferenced()))
    return frozenset(paths), atoms, frozenset(frozenset(v) for v in by_node.values() if len(v) > 1)


def lib_build(spec, shared=None):
    from pyformlang.fcfg.feature_structure import FeatureStructure
    shared = {} if shared is None else shared
    if spec[0] == "atom":
        tag = spec[2]
        if tag is not None and tag in shared:
            return shared[tag]
        n = FeatureStructure(spec[1])
        if tag is not None:
            shared[tag] = n
        return n
    n = FeatureStructure()
    for f, s in spec[1].items():
        n.add_content(f, lib_build(s, shared))
    return n


class C18(Prop):
    ID = "C18"
    RULE = ("(i) every ordered pair of consistently typed feature structures of depth <= 2 (features F,G atomic, H complex; "
            "atoms p,q or unspecified; at most one shared node), built through the public constructors; (ii) every "
            "feature grammar obtained from a useful skeleton of CFG(2,2,2,<=p) by annotating at most k variable "
            "occurrences with F=p, F=q or F=?x (read by FCFG.from_text) x every word of length <= 3; feature-free "
            "grammars are compared with CFG.contains too; non-trivial = unification succeeds on distinct structures / "
            "the instantiated grammar generates >= 1 word")
    BOUNDS = "563 structures (317k ordered pairs); skeletons <= 3 productions, <= 2 annotated occurrences (3 thorough); words <= 3"
    CLAUSES = ["C18.unify.raises", "C18.unify.result", "C18.unify.symmetric", "C18.fcfg.contains", "C18.fcfg.agrees_with_cfg",
               "C18.*.terminates", "C18.*.no_foreign_exception"]
    ASSUMPTIONS = ["membership oracle: instantiate every feature variable (an unannotated occurrence is a fresh variable) over "
                   "{p,q} and decide the plain grammar with the CFG oracle on words <= 3"]
    HORIZON = 10.0
    CHUNK = 200

    def layers(self, tier, seed):
        nat = ["natural"]
        n = len(fs_pool())
        pairs = lambda: (("fs", i, j) for i in range(n) for j in range(n))
        if tier == "quick":
            return [Layer("FS pairs", pairs, policies=nat),
                    Layer("FCFG skeletons<=2 prods, all annotations", lambda: fcfg_cases(2, 99), policies=nat),
                    Layer("FCFG skeletons<=3 prods, <=2 annotated", lambda: fcfg_cases(3, 2), policies=nat),
                    Layer("FCFG agreement skeletons (3 variables), <=4 annotated", lambda: agreement_cases(4),
                          policies=nat + ["1", "2"])]
        return [Layer("FS pairs", pairs, policies=nat + ["1"]),
                Layer("FCFG skeletons<=2 prods, all annotations", lambda: fcfg_cases(2, 99), policies=nat + ["1"]),
                Layer("FCFG skeletons<=3 prods, <=4 annotated", lambda: fcfg_cases(3, 4), policies=nat),
                Layer("FCFG agreement skeletons (3 variables), all annotations", lambda: agreement_cases(99),
                      policies=nat + ["1", "2"])]

    def reference(self, case):
        if case[0] == "fs":
            sa, sb = GS.spec(fs_pool()[case[1]]), GS.spec(fs_pool()[case[2]])
            a, b = RS.build(sa), RS.build(sb)
            try:
                RS.unify(a, b)
                return {"clash": False, "obs": RS.observable(a)}
            except RS.Clash:
                return {"clash": True}
        sk = skeleton(case)
        g = fcfg_reference(sk, case[3])
        return {"lang": g.lang_upto(3), "plain": not any(case[3])}

    def outcome(self, case, ref):
        if case[0] == "fs":
            return ("fs", ref["clash"], None if ref["clash"] else (len(ref["obs"][0]), len(ref["obs"][2])))
        return ("fcfg", tuple(sorted(ref["lang"]))[:5])

    def nontrivial(self, case, ref):
        if case[0] == "fs":
            return not ref["clash"] and case[1] != case[2]
        return bool(ref["lang"])

    def describe(self, case):
        if case[0] == "fs":
            return {"a": repr(GS.spec(fs_pool()[case[1]])), "b": repr(GS.spec(fs_pool()[case[2]]))}
        return {"grammar": fcfg_text(skeleton(case), case[3])}

    script = describe

    def thaw(self, case):
        if case[0] == "fs":
            return tuple(case)
        return (case[0], case[1], case[2], tuple(case[3]))

    def check(self, case, ref, ctx):
        if case[0] == "fs":
            return self._unify(case, ref, ctx)
        from pyformlang.fcfg import FCFG
        sk = skeleton(case)
        text = fcfg_text(sk, case[3])
        f = ctx.call(FCFG.from_text, text)
        if not ctx.returns(f, "C18.fcfg.from_text", grammar=text):
            return
        f = f.value
        plain = None
        if ref["plain"]:
            plain = O.build_cfg(sk, "plain", "prods")
        for w in W3:
            r = ctx.call(f.contains, list(w))
            if not ctx.returns(r, "C18.fcfg.contains", grammar=text, word=w):
                if r.kind == "timeout":
                    return
                continue
            if r.value is not (w in ref["lang"]):
                ctx.fail("C18.fcfg.contains", grammar=text, word=w, got=r.value, want=w in ref["lang"])
            if plain is not None:
                c = ctx.call(plain.contains, list(w))
                if c.ok and c.value is not r.value:
                    ctx.fail("C18.fcfg.agrees_with_cfg", grammar=text, word=w, fcfg=r.value, cfg=c.value)

    def _unify(self, case, ref, ctx):
        from pyformlang.fcfg.feature_structure import FeatureStructuresNotCompatibleException as Clash
        sa, sb = GS.spec(fs_pool()[case[1]]), GS.spec(fs_pool()[case[2]])
        a, b = lib_build(sa), lib_build(sb)
        r = ctx.call(a.unify, b)
        if r.kind == "timeout":
            ctx.fail("C18.unify.terminates")
            return
        if ref["clash"]:
            if r.ok or not isinstance(r.exc, Clash):
                ctx.fail("C18.unify.raises", got=r.describe(), want="FeatureStructuresNotCompatibleException")
            return
        if not r.ok:
            if isinstance(r.exc, Clash):
                ctx.fail("C18.unify.raises", got=r.describe(), want="success")
            else:
                ctx.fail("C18.unify.no_foreign_exception", got=r.describe())
            return
        o = ctx.call(lib_observable, a)
        if ctx.returns(o, "C18.unify.observe"):
            if o.value != ref["obs"]:
                ctx.fail("C18.unify.result", got=repr(o.value)[:400], want=repr(ref["obs"])[:400])
        # argument order: unify(b', a') leaves on b' what unify(a, b) left on a
        a2, b2 = lib_build(sa), lib_build(sb)
        r2 = ctx.call(b2.unify, a2)
        if ctx.returns(r2, "C18.unify.symmetric"):
            o2 = ctx.call(lib_observable, b2)
            if ctx.returns(o2, "C18.unify.observe") and o.ok:
                ctx.expect(o2.value == o.value, "C18.unify.symmetric", first=repr(o.value)[:300], second=repr(o2.value)[:300])


PROP = C18()
