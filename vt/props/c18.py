"""C18 -- feature grammars: unification is the glb and membership respects unification."""
from itertools import product

from ..engine import Prop, Layer, SKIP
from ..gen import fs as GS
from ..gen import cfg as GC
from ..refs import fs as RS
from ..refs import cfg as RC
from ..refs import nfa as RN
from .. import observe as O

W3 = [tuple(w) for w in RN.all_words(["a", "b"], 3)]
WNVW = [tuple(w) for w in RN.all_words(["n", "v", "w"], 3)]
ANN = ["", "[F=p]", "[F=q]", "[F=?x]"]      # annotation index -> text
_SK = {}
_FS = None


def fs_pool():
    global _FS
    if _FS is None:
        _FS = list(GS.fs_cases())
    return _FS


def skeletons(pmax):
    if pmax not in _SK:
        out = []
        for c in GC.cfg_cases(2, 2, 2, 0, pmax):
            if not GC.is_rep(c):
                continue
            r = RC.from_case(c)
            if r.is_empty() or set(r.variables) != r.useful_variables():
                continue
            out.append(c)
        _SK[pmax] = out
    return _SK[pmax]


# skeletons with three variables in which a constituent has two derivations over the same span, one of them
# through another variable (so that the same chart state is reached with bound and with unbound features)
AGREEMENT = [(3, 2, ((0, (1, 2)), (1, (2,)), (1, (3,)), (2, (3,)), (2, (4,)))),     # S -> A B; A -> B | a; B -> a | b
             (3, 2, ((0, (1, 4)), (1, (2,)), (1, (3,)), (2, (3,)))),                # S -> A b; A -> B | a; B -> a
             # a variable that is nullable only through another one and is needed twice at one input position
             (3, 2, ((0, (1, 1, 3)), (1, (2, 2)), (2, ()), (2, (4,))))]             # S -> A A a; A -> B B; B -> eps | b


def agreement_cases(max_annotated):
    for si, sk in enumerate(AGREEMENT):
        pos = positions(sk)
        # the third skeleton has 8 variable occurrences: at most 2 (thorough: 3) of them annotated
        cap = max_annotated if si < 2 else (2 if max_annotated <= 4 else 3)
        for ann in product(range(4), repeat=len(pos)):
            if sum(1 for a in ann if a) <= cap:
                yield ("fcfg", -1, si, ann)


def skeleton(case):
    return AGREEMENT[case[2]] if case[1] == -1 else skeletons(case[1])[case[2]]


def positions(sk):
    """variable occurrences of a skeleton: (production index, -1 for the head / body index)"""
    out = []
    for pi, (h, body) in enumerate(sk[2]):
        out.append((pi, -1))
        for bi, s in enumerate(body):
            if s < sk[0]:
                out.append((pi, bi))
    return out


def fcfg_cases(pmax, max_annotated):
    for si, sk in enumerate(skeletons(pmax)):
        pos = positions(sk)
        for ann in product(range(4), repeat=len(pos)):
            if sum(1 for a in ann if a) <= max_annotated:
                yield ("fcfg", pmax, si, ann)


def fcfg_text(sk, ann):
    vn, tn = GC.names(sk)
    pos = positions(sk)
    amap = dict(zip(pos, ann))
    lines = []
    for pi, (h, body) in enumerate(sk[2]):
        head = vn[h] + ANN[amap[(pi, -1)]]
        parts = []
        for bi, s in enumerate(body):
            parts.append(vn[s] + ANN[amap[(pi, bi)]] if s < sk[0] else tn[s - sk[0]])
        lines.append("%s -> %s" % (head, " ".join(parts) if parts else "$"))
    return "\n".join(lines)


def merge_alternatives(text):
    """the same grammar with the productions of one (annotated) head written on one line: head -> body | body"""
    order, bodies = [], {}
    for line in text.split("\n"):
        head, body = line.split(" -> ")
        if head not in bodies:
            order.append(head)
            bodies[head] = []
        bodies[head].append(body)
    return "\n".join("%s -> %s" % (h, " | ".join(bodies[h])) for h in order)


def fcfg_reference(sk, ann):
    """Instantiate every feature variable (named ?x: shared within the production; unannotated position: a fresh one)
    over {p, q} -> plain grammar over non-terminals (X, value)."""
    vn, tn = GC.names(sk)
    pos = positions(sk)
    amap = dict(zip(pos, ann))
    prods = []
    for pi, (h, body) in enumerate(sk[2]):
        occ = [(-1, h)] + [(bi, s) for bi, s in enumerate(body) if s < sk[0]]
        free = [o for o in occ if amap[(pi, o[0])] == 0]
        for x in ("p", "q"):                       # value of ?x in this production
            for fv in product(("p", "q"), repeat=len(free)):
                val = {}
                fi = 0
                for o in occ:
                    a = amap[(pi, o[0])]
                    if a == 0:
                        val[o[0]] = fv[fi]
                        fi += 1
                    elif a == 1:
                        val[o[0]] = "p"
                    elif a == 2:
                        val[o[0]] = "q"
                    else:
                        val[o[0]] = x
                head = ("V", (vn[h], val[-1]))
                b = tuple(("V", (vn[s], val[bi])) if s < sk[0] else ("T", tn[s - sk[0]]) for bi, s in enumerate(body))
                prods.append((head, b))
    start = ("V", "START")
    prods += [(start, (("V", (vn[0], v)),)) for v in ("p", "q")]
    return RC.Gram(start, prods)


# ---- two-feature agreement family (hand-shaped: a constituent with a re-entrant reading and a concrete reading)
# skeleton: S -> X Y Z ; X -> x ; X -> W ; W -> x ; Y -> y ; Z -> z      occurrences annotated from small option lists
A2_OPTS = {
    "S.X": ["", "[F=?f,G=?g]", "[F=?f,G=?f]"],
    "S.Y": ["", "[F=?f]", "[F=?g]"],
    "S.Z": ["", "[G=?g]", "[G=?f]"],
    "X.head": ["", "[F=?a,G=?a]", "[F=p,G=q]", "[F=p,G=p]"],
    "W.head": ["", "[F=p,G=q]", "[F=?a,G=?a]", "[F=q,G=q]"],
    "Y.head": ["", "[F=p]"],
    "Z.head": ["", "[G=q]", "[G=p]"],
}
A2_KEYS = list(A2_OPTS)


def agreement2_cases():
    for combo in product(*[range(len(A2_OPTS[k])) for k in A2_KEYS]):
        yield ("fcfg2", combo)


def agreement2_text(combo):
    o = {k: A2_OPTS[k][i] for k, i in zip(A2_KEYS, combo)}
    return "\n".join(["S -> X%s Y%s Z%s" % (o["S.X"], o["S.Y"], o["S.Z"]), "X%s -> x" % o["X.head"], "X -> W",
                      "W%s -> x" % o["W.head"], "Y%s -> y" % o["Y.head"], "Z%s -> z" % o["Z.head"]])


def parse_ann(txt):
    """'[F=?f, G=q]' -> {feature: ('v', name) | ('c', value)}"""
    out = {}
    for part in txt.strip("[]").split(","):
        if "=" in part:
            k, v = [x.strip() for x in part.split("=")]
            out[k] = ("v", v[1:]) if v.startswith("?") else ("c", v)
    return out


def agreement2_reference(combo):
    o = {k: parse_ann(A2_OPTS[k][i]) for k, i in zip(A2_KEYS, combo)}
    feats = ("F", "G")
    rules = [("S", o.get("S.head", {}), [("X", o["S.X"]), ("Y", o["S.Y"]), ("Z", o["S.Z"])]),
             ("X", o["X.head"], ["x"]), ("X", {}, [("W", {})]), ("W", o["W.head"], ["x"]),
             ("Y", o["Y.head"], ["y"]), ("Z", o["Z.head"], ["z"])]
    return instantiate(rules, feats)


def instantiate(rules, feats):
    """rules: (head, head annotation, body of terminal strings / (variable, annotation)) -> CFG over (variable, values)"""
    prods = []
    heads = []
    for head, hann, body in rules:
        if head not in heads:
            heads.append(head)
        occs = [(head, hann)] + [b for b in body if not isinstance(b, str)]
        named = sorted({v[1] for _, ann in occs for v in ann.values() if v[0] == "v"})
        fresh = [(i, f) for i, (_, ann) in enumerate(occs) for f in feats if f not in ann]
        for nv in product(("p", "q"), repeat=len(named)):
            env = dict(zip(named, nv))
            for fv in product(("p", "q"), repeat=len(fresh)):
                fenv = dict(zip(fresh, fv))

                def inst(i, sym, ann):
                    vals = []
                    for f in feats:
                        if f in ann:
                            vals.append(env[ann[f][1]] if ann[f][0] == "v" else ann[f][1])
                        else:
                            vals.append(fenv[(i, f)])
                    return ("V", (sym,) + tuple(vals))
                h = inst(0, head, hann)
                b, k = [], 1
                for x in body:
                    if isinstance(x, str):
                        b.append(("T", x))
                    else:
                        b.append(inst(k, x[0], x[1]))
                        k += 1
                prods.append((h, tuple(b)))
    start = ("V", "START")
    prods += [(start, (("V", (heads[0],) + vals),)) for vals in product(("p", "q"), repeat=len(feats))]
    return RC.Gram(start, prods)


# ---- lexical-ambiguity family: the same head and body listed with two different annotations
# S -> N V ; N -> n (twice) ; V -> v ; V -> w
A3_NAMES = [("S", "N", "V"), ("S", "Gamma", "V"), ("Gamma", "N", "V"), ("S", "Gamma", "Gamma'"), ("S", "Gamma'", "Gamma")]
A3_LEX = ["", "[F=p]", "[F=q]"]
A3_OCC = ["", "[F=?a]", "[F=p]", "[F=q]"]


def lexical_cases():
    for names in range(len(A3_NAMES)):
        for sn in range(len(A3_OCC)):
            for sv in range(len(A3_OCC)):
                for n1 in range(len(A3_LEX)):
                    for n2 in range(n1, len(A3_LEX)):
                        for v1 in range(len(A3_LEX)):
                            for v2 in range(len(A3_LEX)):
                                yield ("fcfg3", (names, sn, sv, n1, n2, v1, v2))


def lexical_rules(combo):
    names, sn, sv, n1, n2, v1, v2 = combo
    S, N, V = A3_NAMES[names]
    return [(S, "", [(N, A3_OCC[sn]), (V, A3_OCC[sv])]), (N, A3_LEX[n1], ["n"]), (N, A3_LEX[n2], ["n"]),
            (V, A3_LEX[v1], ["v"]), (V, A3_LEX[v2], ["w"])]


def lexical_text(combo):
    return "\n".join("%s%s -> %s" % (h, a, " ".join(x if isinstance(x, str) else x[0] + x[1] for x in body))
                     for h, a, body in lexical_rules(combo))


def lexical_reference(combo):
    rules = [(h, parse_ann(a), [x if isinstance(x, str) else (x[0], parse_ann(x[1])) for x in body])
             for h, a, body in lexical_rules(combo)]
    return instantiate(rules, ("F",))


PROBES = [("node", {"H": ("node", {"F": ("atom", "p", None)})}), ("node", {"H": ("node", {"F": ("atom", "q", None)})}),
          ("node", {"F": ("atom", "p", None)}), ("node", {"H": ("node", {"G": ("atom", "p", None)}), "G": ("atom", "q", None)}),
          ("node", {"F": ("atom", None, "s"), "G": ("atom", None, "s")}), ("node", {"H": ("node", {})})]
SCRIPTS = [((0, 1), (1, 2), (3, 0)), ((0, 1), (2, 0), (1, 3)), ((0, 1), (0, 2), (3, 1))]


def seq_cases(mod):
    n = len(fs_pool())
    for i in range(n):
        for j in range(n):
            if (i * 7 + j) % mod == 0:
                yield ("fsseq", i, j)


def lib_observable(fs, max_depth=4):
    paths, atoms, by_node = set(), {}, {}
    todo = [((), fs.get_dereferenced())]
    while todo:
        p, n = todo.pop()
        paths.add(p)
        atoms[p] = n.value
        by_node.setdefault(id(n), set()).add(p)
        if len(p) < max_depth:
            for f, c in n.content.items():
                todo.append((p + (f,), c.get_dereferenced()))
    return frozenset(paths), atoms, frozenset(frozenset(v) for v in by_node.values() if len(v) > 1)


def lib_build(spec, shared=None):
    from pyformlang.fcfg.feature_structure import FeatureStructure
    shared = {} if shared is None else shared
    if spec[0] == "atom":
        tag = spec[2]
        if tag is not None and tag in shared:
            return shared[tag]
        n = FeatureStructure(spec[1])
        if tag is not None:
            shared[tag] = n
        return n
    n = FeatureStructure()
    for f, s in spec[1].items():
        n.add_content(f, lib_build(s, shared))
    return n


class C18(Prop):
    ID = "C18"
    RULE = ("(i) every ordered pair of consistently typed feature structures of depth <= 2 (features F,G atomic, H complex; "
            "atoms p,q or unspecified; at most one shared node), built through the public constructors; (ii) every "
            "feature grammar obtained from a useful skeleton of CFG(2,2,2,<=p) by annotating at most k variable "
            "occurrences with F=p, F=q or F=?x (read by FCFG.from_text) x every word of length <= 3; feature-free "
            "grammars are compared with CFG.contains too; (iii) a two-feature agreement family and a lexical-ambiguity family (one head and body under two annotations, a variable called Gamma); "
            " non-trivial = unification succeeds on distinct structures / "
            "the instantiated grammar generates >= 1 word")
    BOUNDS = "563 structures (317k ordered pairs); skeletons <= 3 productions, <= 2 annotated occurrences (3 thorough); words <= 3"
    CLAUSES = ["C18.unify.raises", "C18.unify.result", "C18.unify.symmetric", "C18.fcfg.contains", "C18.fcfg.agrees_with_cfg",
               "C18.*.terminates", "C18.*.no_foreign_exception"]
    ASSUMPTIONS = ["membership oracle: instantiate every feature variable (an unannotated occurrence is a fresh variable) over "
                   "{p,q} and decide the plain grammar with the CFG oracle on words <= 3"]
    HORIZON = 10.0
    CHUNK = 200

    def layers(self, tier, seed):
        nat = ["natural"]
        n = len(fs_pool())
        pairs = lambda: (("fs", i, j) for i in range(n) for j in range(n))
        if tier == "quick":
            return [Layer("FS pairs", pairs, policies=nat),
                    Layer("FCFG skeletons<=2 prods, all annotations", lambda: fcfg_cases(2, 99), policies=nat),
                    Layer("FCFG skeletons<=3 prods, <=2 annotated", lambda: fcfg_cases(3, 2), policies=nat),
                    Layer("FCFG agreement skeletons (3 variables), <=4 annotated", lambda: agreement_cases(4),
                          policies=nat + ["1", "2"]),
                    Layer("FCFG two-feature agreement family", agreement2_cases, policies=nat + ["1", "2", "3"]),
                    Layer("FCFG lexical-ambiguity family (same production under two annotations, variable called Gamma)",
                          lexical_cases, policies=nat + ["1", "2"]),
                    Layer("FS sequences of three unifications (strided pairs x probes)", lambda: seq_cases(61), policies=nat)]
        return [Layer("FS pairs", pairs, policies=nat + ["1"]),
                Layer("FCFG skeletons<=2 prods, all annotations", lambda: fcfg_cases(2, 99), policies=nat + ["1"]),
                Layer("FCFG skeletons<=3 prods, <=4 annotated", lambda: fcfg_cases(3, 4), policies=nat),
                Layer("FCFG agreement skeletons (3 variables), all annotations", lambda: agreement_cases(99),
                      policies=nat + ["1", "2"]),
                Layer("FCFG two-feature agreement family", agreement2_cases, policies=nat + ["1", "2", "3", "4", "5"]),
                Layer("FCFG lexical-ambiguity family (same production under two annotations, variable called Gamma)",
                      lexical_cases, policies=nat + ["1", "2", "3", "4"]),
                Layer("FS sequences of three unifications (strided pairs x probes)", lambda: seq_cases(13), policies=nat)]

    def reference(self, case):
        if case[0] == "fcfg2":
            return {"lang": agreement2_reference(case[1]).lang_upto(3), "plain": False}
        if case[0] == "fcfg3":
            return {"lang": lexical_reference(case[1]).lang_upto(3), "plain": False}
        if case[0] == "fsseq":
            return {"seq": True}
        if case[0] == "fs":
            sa, sb = GS.spec(fs_pool()[case[1]]), GS.spec(fs_pool()[case[2]])
            a, b = RS.build(sa), RS.build(sb)
            try:
                RS.unify(a, b)
                return {"clash": False, "obs": RS.observable(a)}
            except RS.Clash:
                return {"clash": True}
        sk = skeleton(case)
        g = fcfg_reference(sk, case[3])
        return {"lang": g.lang_upto(3), "plain": not any(case[3])}

    def outcome(self, case, ref):
        if case[0] == "fsseq":
            return ("fsseq", case[1] % 7, case[2] % 7)
        if case[0] == "fs":
            return ("fs", ref["clash"], None if ref["clash"] else (len(ref["obs"][0]), len(ref["obs"][2])))
        return ("fcfg", tuple(sorted(ref["lang"]))[:5])

    def nontrivial(self, case, ref):
        if case[0] == "fsseq":
            return True
        if case[0] == "fs":
            return not ref["clash"] and case[1] != case[2]
        return bool(ref["lang"])

    def describe(self, case):
        if case[0] == "fcfg2":
            return {"grammar": agreement2_text(case[1])}
        if case[0] == "fcfg3":
            return {"grammar": lexical_text(case[1])}
        if case[0] in ("fs", "fsseq"):
            return {"a": repr(GS.spec(fs_pool()[case[1]])), "b": repr(GS.spec(fs_pool()[case[2]]))}
        return {"grammar": fcfg_text(skeleton(case), case[3])}

    script = describe

    def thaw(self, case):
        if case[0] in ("fs", "fsseq"):
            return tuple(case)
        if case[0] in ("fcfg2", "fcfg3"):
            return (case[0], tuple(case[1]))
        return (case[0], case[1], case[2], tuple(case[3]))

    def check(self, case, ref, ctx):
        if case[0] == "fs":
            return self._unify(case, ref, ctx)
        if case[0] == "fsseq":
            return self._sequences(case, ctx)
        from pyformlang.fcfg import FCFG
        if case[0] in ("fcfg2", "fcfg3"):
            text = agreement2_text(case[1]) if case[0] == "fcfg2" else lexical_text(case[1])
            f = ctx.call(FCFG.from_text, text, A3_NAMES[case[1][0]][0]) if case[0] == "fcfg3" else ctx.call(FCFG.from_text, text)
            words3 = [("x", "y", "z"), ("x", "y"), ("x", "z", "y"), ("x",), ()]
            if case[0] == "fcfg3":
                words3 = WNVW
            if ctx.returns(f, "C18.fcfg.from_text", grammar=text):
                ctx.batch_equal("C18.fcfg.contains", lambda w: f.value.contains(list(w)), words3,
                                lambda w: w in ref["lang"], stop_at_first=False, grammar=text)
            merged = merge_alternatives(text)
            if merged != text:
                start = (A3_NAMES[case[1][0]][0],) if case[0] == "fcfg3" else ()
                f2 = ctx.call(FCFG.from_text, merged, *start)
                if ctx.returns(f2, "C18.fcfg.from_text", grammar=merged):
                    ctx.batch_equal("C18.fcfg.contains", lambda w: f2.value.contains(list(w)), words3,
                                    lambda w: w in ref["lang"], stop_at_first=False, grammar=merged)
            return
        sk = skeleton(case)
        text = fcfg_text(sk, case[3])
        f = ctx.call(FCFG.from_text, text)
        if not ctx.returns(f, "C18.fcfg.from_text", grammar=text):
            return
        f = f.value
        merged = merge_alternatives(text)
        if merged != text:
            f2 = ctx.call(FCFG.from_text, merged)
            if ctx.returns(f2, "C18.fcfg.from_text", grammar=merged):
                ctx.batch_equal("C18.fcfg.contains", lambda w: f2.value.contains(list(w)), W3,
                                lambda w: w in ref["lang"], stop_at_first=False, grammar=merged)
        plain = None
        if ref["plain"]:
            plain = O.build_cfg(sk, "plain", "prods")
        for w in W3:
            r = ctx.call(f.contains, list(w))
            if not ctx.returns(r, "C18.fcfg.contains", grammar=text, word=w):
                if r.kind == "timeout":
                    return
                continue
            if r.value is not (w in ref["lang"]):
                ctx.fail("C18.fcfg.contains", grammar=text, word=w, got=r.value, want=w in ref["lang"])
            if plain is not None:
                c = ctx.call(plain.contains, list(w))
                if c.ok and c.value is not r.value:
                    ctx.fail("C18.fcfg.agrees_with_cfg", grammar=text, word=w, fcfg=r.value, cfg=c.value)

    def _sequences(self, case, ctx):
        """three unifications in a row on shared structures; after every step the library must raise iff the reference
        clashes, and at the end all four structures must have the reference observables"""
        from pyformlang.fcfg.feature_structure import FeatureStructuresNotCompatibleException as Clash
        sa, sb = GS.spec(fs_pool()[case[1]]), GS.spec(fs_pool()[case[2]])
        for script in SCRIPTS:
            for p1 in range(len(PROBES)):
                for p2 in range(len(PROBES)):
                    specs = [sa, sb, PROBES[p1], PROBES[p2]]
                    refs = [RS.build(x) for x in specs]
                    libs = [lib_build(x) for x in specs]
                    ok = True
                    for step, (r, a) in enumerate(script):
                        try:
                            RS.unify(refs[r], refs[a])
                            clash = False
                        except RS.Clash:
                            clash = True
                        res = ctx.call(libs[r].unify, libs[a])
                        if clash:
                            if res.ok or not isinstance(res.exc, Clash):
                                ctx.fail("C18.unify.raises", script=script, step=step, probes=(p1, p2), got=res.describe(),
                                         want="FeatureStructuresNotCompatibleException")
                            ok = False
                            break       # after a clash the structures are unspecified
                        if not res.ok:
                            ctx.fail("C18.unify.raises", script=script, step=step, probes=(p1, p2), got=res.describe(), want="success")
                            ok = False
                            break
                    if ok:
                        for k in range(4):
                            o = ctx.call(lib_observable, libs[k])
                            if ctx.returns(o, "C18.unify.observe") and o.value != RS.observable(refs[k]):
                                ctx.fail("C18.unify.result", script=script, probes=(p1, p2), structure=k,
                                         got=repr(o.value)[:300], want=repr(RS.observable(refs[k]))[:300])
                                break

    def _unify(self, case, ref, ctx):
        from pyformlang.fcfg.feature_structure import FeatureStructuresNotCompatibleException as Clash
        sa, sb = GS.spec(fs_pool()[case[1]]), GS.spec(fs_pool()[case[2]])
        a, b = lib_build(sa), lib_build(sb)
        r = ctx.call(a.unify, b)
        if r.kind == "timeout":
            ctx.fail("C18.unify.terminates")
            return
        if ref["clash"]:
            if r.ok or not isinstance(r.exc, Clash):
                ctx.fail("C18.unify.raises", got=r.describe(), want="FeatureStructuresNotCompatibleException")
            return
        if not r.ok:
            if isinstance(r.exc, Clash):
                ctx.fail("C18.unify.raises", got=r.describe(), want="success")
            else:
                ctx.fail("C18.unify.no_foreign_exception", got=r.describe())
            return
        o = ctx.call(lib_observable, a)
        if ctx.returns(o, "C18.unify.observe"):
            if o.value != ref["obs"]:
                ctx.fail("C18.unify.result", got=repr(o.value)[:400], want=repr(ref["obs"])[:400])
        # argument order: unify(b', a') leaves on b' what unify(a, b) left on a
        a2, b2 = lib_build(sa), lib_build(sb)
        r2 = ctx.call(b2.unify, a2)
        if ctx.returns(r2, "C18.unify.symmetric"):
            o2 = ctx.call(lib_observable, b2)
            if ctx.returns(o2, "C18.unify.observe") and o.ok:
                ctx.expect(o2.value == o.value, "C18.unify.symmetric", first=repr(o.value)[:300], second=repr(o2.value)[:300])


PROP = C18()
