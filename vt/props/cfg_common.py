"""Shared pieces of the CFG block (C08, C09, C10, C12)."""
import os
from ..engine import Prop, Layer
from ..gen import cfg as G
from ..refs import cfg as RC
from ..refs import nfa as RN
from .. import observe as O

T2 = ["a", "b"]
FOREIGN = "zz"


def words(L, foreign=True):
    out = [tuple(w) for w in RN.all_words(T2, L)]
    if foreign:
        out += [(FOREIGN,), ("a", FOREIGN), (FOREIGN, "b"), ("a", FOREIGN, "b")]
        # unknown symbols spelled like the grammar's variables
        out += [("S",), ("A",), ("a", "S"), ("A", "b"), ("S", "A")]
    return out


W4 = words(4)
W3 = words(3)


def cfg_layers(tier, adversarial=("cnf",), extra_quick=(), extra_thorough=()):
    # probing aid: VERIF_EXTRA_ADV=scheme,scheme adds naming schemes to the adversarial-name layers (not used by the
    # registered commands)
    adversarial = tuple(adversarial) + tuple(x for x in os.environ.get("VERIF_EXTRA_ADV", "").split(",") if x)
    if tier == "quick":
        ls = [Layer("CFG(2,2,2,<=3)", lambda: G.cfg_cases(2, 2, 2, 0, 3), rep=G.is_rep),
              Layer("CFG(2,2,3,<=2)", lambda: G.cfg_cases(2, 2, 3, 0, 2), rep=G.is_rep),
              Layer("CFG(3,2,1,<=5) unit/terminal/epsilon productions only", lambda: G.cfg_cases(3, 2, 1, 0, 5),
                    rep=G.is_rep, policies=["natural@plain", "1@plain", "2@plain"])]
        for sch in adversarial:
            ls.append(Layer("CFG(2,2,2,<=2)/names:" + sch, lambda: G.cfg_cases(2, 2, 2, 0, 2), rep=None,
                            policies=["natural@" + sch, "1@" + sch]))
        if "cnf" in adversarial:
            ls.append(Layer("CFG(3,1,3,<=2)/names:cnf2", lambda: G.cfg_cases(3, 1, 3, 0, 2), rep=None,
                            policies=["natural@cnf2"]))
        return ls + list(extra_quick)
    few = ["natural@plain", "1@plain", "2@plain"]
    ls = [Layer("CFG(3,2,1,<=6) unit/terminal/epsilon productions only", lambda: G.cfg_cases(3, 2, 1, 0, 6),
                rep=G.is_rep, policies=["natural@plain", "1@plain", "2@plain", "3@plain"]),
          Layer("CFG(2,2,2,<=3)", lambda: G.cfg_cases(2, 2, 2, 0, 3), rep=None),
          Layer("CFG(2,2,3,<=2)", lambda: G.cfg_cases(2, 2, 3, 0, 2), rep=None),
          Layer("CFG(2,2,2,4)", lambda: G.cfg_cases(2, 2, 2, 4, 4), rep=G.is_rep, policies=few),
          Layer("CFG(3,2,2,<=3)", lambda: G.cfg_cases(3, 2, 2, 0, 3), rep=G.is_rep, policies=few),
          Layer("CFG(2,2,3,3)", lambda: G.cfg_cases(2, 2, 3, 3, 3), rep=G.is_rep, policies=few[:2])]
    for sch in adversarial:
        ls.append(Layer("CFG(2,2,2,<=3)/names:" + sch, lambda: G.cfg_cases(2, 2, 2, 0, 3), rep=None,
                        policies=["natural@" + sch, "1@" + sch]))
    if "cnf" in adversarial:
        ls.append(Layer("CFG(3,1,3,<=2)/names:cnf2", lambda: G.cfg_cases(3, 1, 3, 0, 2), rep=None,
                        policies=["natural@cnf2", "1@cnf2"]))
    return ls + list(extra_thorough)


def cfg_policies(tier, seed):
    if tier == "quick":
        return ["natural@plain", "1@plain", "2@plain", "3@plain", "s%d@plain" % seed]
    return ["natural@plain"] + ["%d@plain" % i for i in range(1, 9)] + \
           ["s%d@plain" % (seed * 7 + 1), "s%d@plain" % (seed * 7 + 2)]


class CFGProp(Prop):
    HORIZON = 4.0

    def describe(self, case):
        return {"grammar": G.to_text(case), "case": [case[0], case[1], [[h, list(b)] for h, b in case[2]]]}

    def script(self, case):
        return ["from pyformlang.cfg import CFG", "g = CFG.from_text(%r)" % G.to_text(case).replace("; ", "\n").replace("eps", "$")]

    thaw = staticmethod(G.thaw)

    def default_policies(self, tier, seed):
        return cfg_policies(tier, seed)

    @staticmethod
    def ref_gram(case, scheme):
        vn, tn = G.names(case, scheme)
        return RC.from_case(case, vn, tn)


def word_map(case, scheme):
    """-> (to_scheme, from_scheme): translate word tuples between the plain terminal names and the scheme's"""
    _, plain = G.names(case, "plain")
    _, tn = G.names(case, scheme)
    if list(plain) == list(tn):
        ident = lambda w: tuple(w)
        return ident, ident
    fw = {("s", p): t for p, t in zip(plain, tn)}
    bw = {(type(t).__name__, t): p for p, t in zip(plain, tn)}
    return (lambda w: tuple(fw.get(("s", x), x) for x in w)), (lambda w: tuple(bw.get((type(x).__name__, x), x) for x in w))


def lib_words_to_tuples(items):
    """items yielded by the library (lists of Terminal) -> list of tuples of values; raises on malformed items."""
    m = O.cfgmod()
    out = []
    for w in items:
        if not isinstance(w, list):
            raise TypeError("item is not a list: %r" % (w,))
        for x in w:
            if not isinstance(x, m.Terminal):
                raise TypeError("item contains a non-terminal: %r" % (w,))
        out.append(tuple(x.value for x in w))
    return out
