"""C04 -- emptiness, determinism, acyclicity and word enumeration are exact."""
from collections import Counter

from ..engine import Prop, Layer
from ..gen import fa as G
from .. import observe as O


class C04(Prop):
    ID = "C04"
    RULE = ("every epsilon-NFA of the layer FA(n,k,t) (all transition sets of <= t edges over n states, k symbols "
            "+ epsilon, all start sets, all final sets), reduced modulo renaming of states/symbols, each under every "
            "listed order policy and naming scheme; non-trivial = language non-empty")
    BOUNDS = "n<=3 (quick), n<=4 (thorough); word bounds 0..4 and None on finite languages"
    CLAUSES = ["C04.is_empty", "C04.is_deterministic", "C04.is_acyclic", "C04.words.bounded", "C04.words.unbounded",
               "C04.*.terminates", "C04.*.no_foreign_exception"]
    ASSUMPTIONS = ["sizes beyond the completed layers are not explored",
                   "set-iteration orders: natural order under the pinned PYTHONHASHSEED plus the listed salt policies"]
    HORIZON = 10.0

    def layers(self, tier, seed):
        if tier == "quick":
            return [Layer("FA(2,2,<=12)", lambda: G.fa_cases(2, 2, 0, 12), rep=G.is_rep),
                    Layer("FA(3,2,<=3)", lambda: G.fa_cases(3, 2, 0, 3), rep=G.is_rep)]
        few = ["natural@int", "natural@str", "1@int", "2@str", "s%d@int" % seed]
        return [Layer("FA(2,2,<=12)", lambda: G.fa_cases(2, 2, 0, 12), rep=G.is_rep_states),
                Layer("FA(3,2,<=3)", lambda: G.fa_cases(3, 2, 0, 3), rep=G.is_rep_states),
                Layer("FA(3,2,4)", lambda: G.fa_cases(3, 2, 4, 4), rep=G.is_rep, policies=few),
                Layer("FA(3,1,<=6)", lambda: G.fa_cases(3, 1, 0, 6), rep=G.is_rep),
                Layer("FA(4,1,<=4)", lambda: G.fa_cases(4, 1, 0, 4), rep=G.is_rep, policies=few)]

    def default_policies(self, tier, seed):
        if tier == "quick":
            return ["natural@int", "natural@str", "1@int", "2@str", "3@int", "s%d@str" % seed]
        return ["natural@int", "natural@str"] + ["%d@%s" % (i, "int" if i % 2 else "str") for i in range(1, 13)] + \
               ["s%d@int" % (seed * 7 + 1), "s%d@str" % (seed * 7 + 2)]

    def reference(self, case):
        r = O.ref_from_case(case)
        finite = r.language_finite()
        return {"nfa": r, "empty": r.is_empty(), "det": r.is_deterministic_struct(),
                "acyclic": not r.has_reachable_cycle(), "finite": finite,
                "words": r.words_upto(4), "all": r.all_words() if finite else None}

    def outcome(self, case, ref):
        return (ref["empty"], ref["det"], ref["acyclic"], ref["finite"], len(ref["words"]))

    def nontrivial(self, case, ref):
        return not ref["empty"]

    def describe(self, case):
        return {"n": case[0], "symbols": case[1], "transitions": [list(t) for t in case[2]],
                "starts_mask": case[3], "finals_mask": case[4]}

    def script(self, case):
        n, k, trans, st, fi = case
        lines = ["from pyformlang.finite_automaton import EpsilonNFA", "e = EpsilonNFA()"]
        for p, s, q in trans:
            lines.append("e.add_transition(%d, %r, %d)" % (p, "epsilon" if s == 0 else G.SYMS[s], q))
        lines += ["e.add_start_state(%d)" % i for i in range(n) if st >> i & 1]
        lines += ["e.add_final_state(%d)" % i for i in range(n) if fi >> i & 1]
        return lines

    thaw = staticmethod(G.thaw)

    def check(self, case, ref, ctx):
        scheme = ctx.variant or "int"
        kind = O.case_kind(case)
        classes = ["enfa"] + (["nfa"] if kind in ("nfa", "dfa") else []) + (["dfa"] if kind == "dfa" else [])
        for cls in classes:
            b = ctx.call(O.build_fa, case, cls, scheme)
            if not ctx.returns(b, "C04.build", cls=cls):
                continue
            a = b.value
            r = ctx.call(a.is_empty)
            if ctx.returns(r, "C04.is_empty", cls=cls):
                ctx.expect(r.value is ref["empty"], "C04.is_empty", cls=cls, got=r.value, want=ref["empty"])
            r = ctx.call(a.is_deterministic)
            if ctx.returns(r, "C04.is_deterministic", cls=cls):
                ctx.expect(r.value is ref["det"], "C04.is_deterministic", cls=cls, got=r.value, want=ref["det"])
            r = ctx.call(a.is_acyclic)
            if ctx.returns(r, "C04.is_acyclic", cls=cls):
                ctx.expect(r.value is ref["acyclic"], "C04.is_acyclic", cls=cls, got=r.value, want=ref["acyclic"])
            for n in (0, 1, 2, 3, 4):
                want = {w for w in ref["words"] if len(w) <= n}
                r = ctx.collect(a.get_accepted_words, n, limit=len(want) + 2)
                if ctx.returns(r, "C04.words.bounded", cls=cls, n=n):
                    self._cmp(ctx, "C04.words.bounded", r.value, want, cls=cls, n=n)
            if ref["finite"]:
                want = ref["all"]
                r = ctx.collect(a.get_accepted_words, limit=len(want) + 2)
                if ctx.returns(r, "C04.words.unbounded", cls=cls):
                    self._cmp(ctx, "C04.words.unbounded", r.value, want, cls=cls, n=None)

        # the same object after a public mutator: every transition in turn is removed from an automaton that has
        # already answered (whatever it remembers must follow the change), then put back
        n_, k_, trans, st, fi = case
        if trans:
            b = ctx.call(O.build_fa, case, "enfa", scheme)
            if ctx.returns(b, "C04.build", cls="enfa"):
                a = b.value
                nm = G.names(scheme, n_)
                sv = O.sym_values(k_)
                ctx.collect(a.get_accepted_words, 2, limit=50)
                ctx.call(a.is_empty)
                for t in trans:
                    lt = (nm[t[0]], "epsilon" if t[1] == 0 else sv[t[1]], nm[t[2]])
                    rm = ctx.call(a.remove_transition, *lt)
                    if not ctx.returns(rm, "C04.remove_transition"):
                        break
                    r2 = O.ref_from_case((n_, k_, tuple(x for x in trans if x != t), st, fi), scheme)
                    kw = dict(cls="enfa", after="remove_transition%r" % (lt,))
                    e = ctx.call(a.is_empty)
                    if ctx.returns(e, "C04.is_empty", **kw):
                        ctx.expect(e.value is r2.is_empty(), "C04.is_empty", got=e.value, want=r2.is_empty(), **kw)
                    ac = ctx.call(a.is_acyclic)
                    if ctx.returns(ac, "C04.is_acyclic", **kw):
                        ctx.expect(ac.value is (not r2.has_reachable_cycle()), "C04.is_acyclic", got=ac.value, **kw)
                    want = r2.words_upto(3)
                    r = ctx.collect(a.get_accepted_words, 3, limit=len(want) + 2)
                    if ctx.returns(r, "C04.words.bounded", n=3, **kw):
                        self._cmp(ctx, "C04.words.bounded", r.value, want, n=3, **kw)
                    if r2.language_finite():
                        want = r2.all_words()
                        r = ctx.collect(a.get_accepted_words, limit=len(want) + 2)
                        if ctx.returns(r, "C04.words.unbounded", **kw):
                            self._cmp(ctx, "C04.words.unbounded", r.value, want, n=None, **kw)
                    ctx.call(a.add_transition, *lt)

    @staticmethod
    def _cmp(ctx, clause, got, want, **kw):
        try:
            g = Counter(tuple(s.value for s in w) for w in got)
        except Exception as e:  # items are not lists of Symbols
            ctx.fail(clause, got="malformed item: %r" % (e,), **kw)
            return
        dup = [w for w, c in g.items() if c > 1]
        missing = sorted(want - set(g))
        extra = sorted(set(g) - want)
        if dup or missing or extra:
            ctx.fail(clause, duplicated=dup[:3], missing=missing[:3], extra=extra[:3], **kw)


PROP = C04()
