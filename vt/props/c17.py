"""C17 -- indexed-grammar emptiness is exact and independent of rule order."""
import random
from itertools import permutations

from ..engine import Prop, Layer
from ..gen import ig as GI
from ..refs import ig as RI
from ..refs import regex as RX
from ..refs.nfa import NFA
from .. import observe as O

REGULAR = ["a", "a a", "a*", "a a*", "(a a)*", "$", "b", "a|b", "(a|b)*", "a b", "a a a", "b*"]


def lib_rules(case, swapped=False):
    from pyformlang.indexed_grammar import EndRule, ProductionRule, ConsumptionRule, DuplicationRule
    out = []
    if swapped == "clash":
        rules = GI.ref_rules(case, GI.NT_CLASH, GI.IX_CLASH, GI.TER_CLASH)
    else:
        rules = GI.ref_rules(case, GI.NT_SWAPPED) if swapped else RI_rules(case)
    for r in rules:
        if r[0] == "end":
            out.append(EndRule(r[1], r[2]))
        elif r[0] == "prod":
            out.append(ProductionRule(r[1], r[2], r[3]))
        elif r[0] == "cons":
            out.append(ConsumptionRule(r[1], r[2], r[3]))
        else:
            out.append(DuplicationRule(r[1], r[2], r[3]))
    return out


def RI_rules(case):
    return GI.ref_rules(case)


def same_index_consumptions(case):
    """scope predicate: two consumption rules with the same index and the same left non-terminal"""
    seen = set()
    for r in case[0]:
        if r[0] == 2:
            k = (r[1], r[2])
            if k in seen:
                return True
            seen.add(k)
    return False


class C17(Prop):
    ID = "C17"
    RULE = ("every reduced-form indexed grammar over non-terminals S,A,B, indices f,g, one terminal with <= r rules, "
            "modulo renaming of A,B and f,g; each x every permutation of the rule list x optim 0..8 (random.shuffle "
            "replaced by a fixed rotation), queried twice and again after remove_useless_rules(), also with the start variable called A (another non-terminal called S) and with "
            "every rule listed twice; intersection with 12 "
            "regular languages given as Regex, DFA and epsilon-NFA; non-trivial = language non-empty")
    BOUNDS = "<= 3 rules (4 thorough, rule orders: given, reversed, rotations); intersection on <= 2 rules (3 thorough, strided)"
    CLAUSES = ["C17.is_empty", "C17.is_empty.repeat", "C17.remove_useless_rules.is_empty", "C17.intersection.is_empty",
               "C17.*.terminates", "C17.*.no_foreign_exception"]
    ASSUMPTIONS = ["emptiness oracle: stack-profile fixpoint (exact), cross-checked by bounded explicit derivations in selftest"]
    HORIZON = 10.0
    CHUNK = 50

    def layers(self, tier, seed):
        three = ["natural", "1", "2"]
        rep = lambda c: GI.is_rep(c[1])
        e = lambda gen: (lambda: (("emp", c) for c in gen()))
        i = lambda gen: (lambda: (("int", c) for c in gen()))
        if tier == "quick":
            return [Layer("IG(<=3 rules) all orders x all optim", e(lambda: GI.ig_cases(0, 3)), rep=rep,
                          policies=["natural@full", "1@full", "2@full"]),
                    Layer("duplication chains (4 non-terminals, 1 end + 3 duplication rules), every 3rd",
                          e(lambda: (c for k, c in enumerate(GI.dup_chain_cases()) if k % 3 == 0)),
                          policies=["natural@dup", "1@dup"]),
                    Layer("stack chains (<=5 push/pop steps, optional extra consumption rule)", e(GI.stack_chain_cases),
                          policies=["natural@dup", "1@dup"]),
                    Layer("marked pairs with unbalanced consumption rules", e(GI.marked_pair_cases), policies=["natural@dup", "1@dup"]),
                    Layer("IG(<=2 rules) x regular (every 2nd grammar)",
                          i(lambda: (c for k, c in enumerate(c2 for c2 in GI.ig_cases(1, 2) if GI.is_rep(c2)) if k % 2 == 0)),
                          policies=["natural@few"])]
        return [Layer("IG(<=3 rules) all orders x all optim", e(lambda: GI.ig_cases(0, 3)), rep=rep,
                      policies=["natural@full", "1@full", "2@full", "s%d@full" % seed]),
                Layer("IG(4 rules)", e(lambda: GI.ig_cases(4, 4)), rep=rep, policies=["natural", "1"]),
                Layer("duplication chains (4 non-terminals, 1 end + 3 duplication rules)", e(GI.dup_chain_cases),
                      policies=["natural@full", "1@full", "2@full", "3@full"]),
                Layer("stack chains (<=6 push/pop steps, optional extra consumption rule)",
                      e(lambda: GI.stack_chain_cases(6, 4)), policies=["natural@full", "1@full"]),
                Layer("marked pairs with unbalanced consumption rules", e(GI.marked_pair_cases), policies=["natural@full", "1@full"]),
                Layer("IG(3 rules)/16 x regular", i(lambda: (c for k, c in enumerate(GI.ig_cases(3, 3)) if k % 16 == 0)),
                      rep=rep, policies=["natural"]),
                Layer("IG(<=2 rules) x regular", i(lambda: GI.ig_cases(1, 2)), rep=rep, policies=["natural", "1"])]

    def reference(self, case):
        g = RI.IG(RI_rules(case[1]))
        return {"empty": g.is_empty()}

    def outcome(self, case, ref):
        return (case[0], ref["empty"], len(case[1][0]))

    def nontrivial(self, case, ref):
        return not ref["empty"]

    def describe(self, case):
        return {"kind": case[0], "rules": RI.IG(RI_rules(case[1])).describe()}

    script = describe

    def thaw(self, case):
        return (case[0], GI.thaw(case[1]))

    def orders(self, n):
        idx = list(range(n))
        if n <= 3:
            return [list(p) for p in permutations(idx)]
        out = [idx, idx[::-1]]
        for k in range(1, n):
            out.append(idx[k:] + idx[:k])
        return out

    def check(self, case, ref, ctx):
        from pyformlang.indexed_grammar import Rules, IndexedGrammar
        old_shuffle = random.shuffle

        def rotate(lst):
            if len(lst) > 1:
                lst.append(lst.pop(0))
        random.shuffle = rotate
        try:
            if case[0] == "emp":
                self._emptiness(case, ref, ctx, Rules, IndexedGrammar)
            else:
                self._intersection(case, ref, ctx, Rules, IndexedGrammar)
        finally:
            random.shuffle = old_shuffle

    def _emptiness(self, case, ref, ctx, Rules, IndexedGrammar):
        want = ref["empty"]
        n = len(case[1][0])
        full = ctx.variant == "full"
        dup = ctx.variant == "dup"
        for oi, order in enumerate(self.orders(n)):
            for optim in range(9):
                if not full and oi > 0 and optim not in (0, 7):
                    continue        # quick: every rule order x optim {0, 7}; the given order x every optim
                if dup and optim not in (0, 3, 7):
                    continue        # larger shape families: optim 0, 3, 7 on the listed rule orders
                def build():
                    rl = lib_rules(case[1])
                    return IndexedGrammar(Rules([rl[i] for i in order], optim))
                g = ctx.call(build)
                if not ctx.returns(g, "C17.build", order=order, optim=optim):
                    continue
                g = g.value
                r = ctx.call(g.is_empty)
                if ctx.returns(r, "C17.is_empty", order=order, optim=optim):
                    ctx.expect(r.value is want, "C17.is_empty", order=order, optim=optim, got=r.value, want=want)
                r2 = ctx.call(g.is_empty)
                if ctx.returns(r2, "C17.is_empty.repeat", order=order, optim=optim):
                    ctx.expect(r2.value is want, "C17.is_empty.repeat", order=order, optim=optim, got=r2.value, want=want)
                if optim in (0, 7):
                    g2 = ctx.call(build)
                    self._useless(ctx, g2.value, want, order=order, optim=optim)
                if optim in (0, 7) and oi == 0 and n:
                    # the rule list with every rule listed twice (fresh objects)
                    def build_twice():
                        return IndexedGrammar(Rules(lib_rules(case[1]) + lib_rules(case[1]), optim))
                    g = ctx.call(build_twice)
                    if ctx.returns(g, "C17.build", order="every rule twice", optim=optim):
                        r = ctx.call(g.value.is_empty)
                        if ctx.returns(r, "C17.is_empty", order="every rule twice", optim=optim):
                            ctx.expect(r.value is want, "C17.is_empty", order="every rule twice", optim=optim,
                                       got=r.value, want=want)
                if optim in (0, 7) and oi == 0:
                    # the same grammar with the start variable called A (and another non-terminal called S)
                    def build_swapped():
                        rl = lib_rules(case[1], swapped=True)
                        return IndexedGrammar(Rules([rl[i] for i in order], optim), "A")
                    g = ctx.call(build_swapped)
                    if not ctx.returns(g, "C17.build", order=order, optim=optim, start="A"):
                        continue
                    r = ctx.call(g.value.is_empty)
                    if ctx.returns(r, "C17.is_empty", order=order, optim=optim, start="A"):
                        ctx.expect(r.value is want, "C17.is_empty", order=order, optim=optim, start="A", got=r.value, want=want)
                    self._useless(ctx, ctx.call(build_swapped).value, want, order=order, optim=optim, start="A")

    @staticmethod
    def _useless(ctx, g, want, **kw):
        u = ctx.call(g.remove_useless_rules)
        if ctx.returns(u, "C17.remove_useless_rules", **kw):
            r3 = ctx.call(u.value.is_empty)
            if ctx.returns(r3, "C17.remove_useless_rules.is_empty", **kw):
                ctx.expect(r3.value is want, "C17.remove_useless_rules.is_empty", got=r3.value, want=want, **kw)

    def _intersection(self, case, ref, ctx, Rules, IndexedGrammar):
        from pyformlang.regular_expression import Regex
        rg = RI.IG(RI_rules(case[1]))
        slow = False
        for k, text in enumerate(REGULAR):
            if slow:
                return
            if ctx.variant == "few" and k % 2:
                continue        # quick: every second regular language
            nfa = RX.to_nfa(RX.parse(text))
            want_empty = not RI.intersect_regular(rg, nfa)
            for form in ("regex", "dfa", "enfa", "regex/start=A", "regex/clashing spellings", "enfa/clashing spellings"):
                if ctx.variant == "few" and form != "regex" and (k % 4 or form == "enfa/clashing spellings"):
                    continue
                if ctx.variant != "few" and form != "regex" and k % 2:
                    continue        # thorough: the other operand forms / spellings on every second regular language
                swapped = form.endswith("start=A")
                clash = form.endswith("clashing spellings")
                rtext = text.replace("a", GI.TER_CLASH) if clash else text

                def operand():
                    r = Regex(rtext)
                    if form.startswith("regex"):
                        return r
                    e = r.to_epsilon_nfa()
                    return e.to_deterministic() if form == "dfa" else e
                g = IndexedGrammar(Rules(lib_rules(case[1], swapped)), "A") if swapped else \
                    IndexedGrammar(Rules(lib_rules(case[1], "clash" if clash else False)))
                op = ctx.call(operand)
                if not ctx.returns(op, "C17.intersection.operand", regular=text, form=form):
                    continue
                i = ctx.call(g.intersection, op.value)
                if not ctx.returns(i, "C17.intersection", regular=text, form=form):
                    continue
                ctx.horizon, keep = (0.5 if ctx.variant == "few" else 1.0), ctx.horizon
                e = ctx.call(i.value.is_empty)
                ctx.horizon = keep
                if e.kind == "timeout":
                    # the marking algorithm is exponential on recursive duplication rules (sets of sets of
                    # non-terminals); it terminates in principle, performance is outside the property:
                    # counted as inconclusive, never as a violation
                    ctx.notes["intersection_inconclusive_slow"] = ctx.notes.get("intersection_inconclusive_slow", 0) + 1
                    slow = True
                    break
                if ctx.returns(e, "C17.intersection.is_empty", regular=text, form=form):
                    ctx.expect(e.value is want_empty, "C17.intersection.is_empty", regular=text, form=form,
                               got=e.value, want=want_empty)
                if form == "regex" and k % 4 == 0:
                    # the result intersected again, with everything: the same verdict
                    # (intersection() ends with remove_useless_rules(), as slow as the emptiness test itself)
                    ctx.horizon, keep = 1.0, ctx.horizon
                    again = ctx.call(lambda: i.value.intersection(Regex("(a|b)*")))
                    ctx.horizon = keep
                    if again.kind == "timeout":
                        ctx.notes["intersection_inconclusive_slow"] = ctx.notes.get("intersection_inconclusive_slow", 0) + 1
                    elif ctx.returns(again, "C17.intersection", regular=text, form="(g & r) & (a|b)*"):
                        ctx.horizon, keep = 1.0, ctx.horizon
                        e2 = ctx.call(again.value.is_empty)
                        ctx.horizon = keep
                        if e2.kind == "timeout":
                            ctx.notes["intersection_inconclusive_slow"] = ctx.notes.get("intersection_inconclusive_slow", 0) + 1
                        elif ctx.returns(e2, "C17.intersection.is_empty", regular=text, form="(g & r) & (a|b)*"):
                            ctx.expect(e2.value is want_empty, "C17.intersection.is_empty", regular=text,
                                       form="(g & r) & (a|b)*", got=e2.value, want=want_empty)

    @property
    def SCOPES(self):
        return {"same_index_consumptions": lambda f: same_index_consumptions(f["case"][1])}


PROP = C17()
