"""Self-test of the machinery (setup_cmd): enumerator counts against closed
formulas, cross-check of the two formulations of each oracle on a complete
layer, order-ownership proof.  Any failure is a harness error (exit 2)."""
import sys
import time


def _fa():
    from .gen import fa as G
    from . import observe as O
    from .refs import nfa as R
    n = sum(1 for _ in G.fa_cases(2, 2, 0, 12))
    assert n == G.fa_count(2, 2, 0, 12) == 65536, n
    n = sum(1 for _ in G.fa_cases(3, 2, 0, 3))
    assert n == G.fa_count(3, 2, 0, 3) == 211456, n
    words = list(R.all_words(["a", "b"], 4))
    checked = 0
    for case in G.fa_cases(2, 2, 0, 3):
        if not G.is_rep(case):
            continue
        r = O.ref_from_case(case)
        for w in words:
            assert r.accepts(w) == r.accepts_b(w), (case, w)
        assert R.minimal_dfa(r, ["a", "b"]) == R.minimal_dfa_brzozowski(r, ["a", "b"]), case
        assert r.is_empty() == (not r.words_upto(3)), case
        assert R.distinguish(r, r.reverse().reverse()) is None
        checked += 1
    return "fa: counts ok, %d automata x %d words: formulations agree" % (checked, len(words))


def _cfg():
    from .gen import cfg as G
    from .refs import cfg as RC
    assert sum(1 for _ in G.cfg_cases(2, 2, 2, 0, 3)) == G.cfg_count(2, 2, 2, 0, 3) == 12384
    n = 0
    for case in G.cfg_cases(2, 2, 2, 0, 3):
        if not G.is_rep(case):
            continue
        r = RC.from_case(case)
        a = r.lang_upto(4)
        b = r.lang_upto_b(4)
        assert a == b, (case, sorted(a ^ b)[:3])
        assert r.is_finite() == r.is_finite_b(), case
        assert r.is_empty() == (not r.lang_upto(6)), case
        assert (r.start in r.nullable()) == (() in a), case
        n += 1
    return "cfg: counts ok, %d grammars: fixpoint == leftmost-derivation BFS on words <= 4, finiteness formulations agree" % n


def _pda():
    from .gen import pda as G
    from . import observe as O
    from .refs import nfa as RN
    words = [tuple(w) for w in RN.all_words(["a", "b"], 3)]
    n = cut = 0
    for k, case in enumerate(G.pda_cases(2, 2, 2, 0, 2)):
        if k % 23:
            continue
        r = O.ref_pda_from_case(case)
        E, F = r.lang_empty_stack(3), r.lang_final_state(3)
        for w in words:
            for mode, L in (("empty", E), ("final", F)):
                acc, c = r.accepts_bfs(w, mode, depth=7)
                if acc:
                    assert w in L, (case, w, mode)
                elif not c:
                    assert w not in L, (case, w, mode)
                else:
                    cut += 1
        n += 1
    return "pda: %d PDAs x %d words x 2 modes: summary fixpoint agrees with configuration BFS (%d inconclusive cuts)" % (n, len(words), cut)


def _ig():
    from .gen import ig as G
    from .refs import ig as RI
    n = 0
    for case in G.ig_cases(0, 3):
        if not G.is_rep(case):
            continue
        g = RI.IG(G.ref_rules(case))
        a = g.is_empty()
        b = g.is_nonempty_bounded(4)
        assert not (a and b), case
        assert a != b, ("depth 4 insufficient or fixpoint wrong", case)
        n += 1
    for gen, depth in ((G.stack_chain_cases(5, 3), 6), (G.dup_chain_cases(), 2)):
        for k, case in enumerate(gen):
            if k % 3:
                continue
            g = RI.IG(G.ref_rules(case))
            assert g.is_empty() != g.is_nonempty_bounded(depth), ("chain family", case)
            n += 1
    return "ig: %d grammars (<= 3 rules, stack chains, duplication chains): stack-profile fixpoint agrees with explicit derivations" % n


def _fst():
    from .gen import fst as G
    from . import observe as O
    from .refs import nfa as RN
    words = [tuple(w) for w in RN.all_words(["a", "b"], 3)]
    n = 0
    for k, case in enumerate(G.fst_cases(2, 0, 2)):
        if k % 7 or not G.is_rep(case):
            continue
        r = O.ref_fst_from_case(case)
        if r.has_writing_eps_cycle():
            continue
        for w in words:
            a = r.relation(w)
            b, cut = r.relation_b(w, 8)
            assert b <= a and (cut or a == b), (case, w)
        n += 1
    return "fst: %d transducers x %d inputs: BFS relation agrees with path enumeration" % (n, len(words))


def _ll1():
    from .gen import cfg as G
    from .refs import cfg as RC
    from .refs import ll1 as L1
    from .props.c14 import no_useless
    n = 0
    for case in G.cfg_cases(2, 2, 2, 0, 3):
        if not G.is_rep(case):
            continue
        r = RC.from_case(case)
        if not no_useless(r):
            continue
        pa, pb = L1.predict_sets(r), L1.predict_sets_b(r, 7)
        for k in pa:
            assert pb[k] <= pa[k], (case, k, pa[k], pb[k])      # bounded brute force is a lower bound
        n += 1
    return "ll1: %d grammars: brute-force predict sets are contained in the textbook ones" % n


def _regex():
    from .gen import regex as GR
    from .refs import regex as RX
    from .refs import nfa as RN
    n = 0
    for s in range(1, 6):
        for ast in GR.asts(s):
            nfa = RX.to_nfa(ast)
            syms = sorted(RX.symbols(ast))
            assert nfa.words_upto(3, syms) == RX.words_upto(ast, 3), ast
            for c, a, red in GR.RENDERINGS[:4]:
                back = RX.parse(GR.render(ast, c, a, red))
                assert RN.distinguish(RX.to_nfa(back), nfa) is None, (ast, c, a, red)
            n += 1
    return "regex: %d ASTs: Thompson NFA == denotational semantics on words <= 3; renderings re-parse to the same language" % n


def _ownership():
    """Same battery under a fixed salt and PYTHONHASHSEED 0,1,2 must give
    identical observation digests (the hook owns set order)."""
    import subprocess, os
    here = os.path.dirname(os.path.dirname(os.path.abspath(__file__)))
    out = []
    for hs in ("0", "1", "2"):
        env = dict(os.environ, PYTHONHASHSEED=hs)
        r = subprocess.run([sys.executable, "-m", "vt.ownership", "7"], cwd=here, env=env,
                           capture_output=True, text=True, timeout=600)
        assert r.returncode == 0, r.stderr[-2000:]
        out.append(r.stdout.strip().splitlines()[-1])
    assert len(set(out)) == 1, out
    return "ownership: digest identical under salt 7 for PYTHONHASHSEED 0,1,2 (%s)" % out[0]


def main():
    t0 = time.time()
    try:
        for f in (_fa, _cfg, _pda, _ig, _fst, _ll1, _regex, _ownership):
            print("selftest", f())
    except AssertionError as e:
        print("HARNESS-ERROR selftest failed:", repr(e)[:2000])
        return 2
    print("selftest ok in %.1fs" % (time.time() - t0))
    return 0
