"""Self-test of the machinery (setup_cmd): enumerator counts against closed
formulas, cross-check of the two formulations of each oracle on a complete
layer, order-ownership proof.  Any failure is a harness error (exit 2)."""
import sys
import time


def _fa():
    from .gen import fa as G
    from . import observe as O
    from .refs import nfa as R
    n = sum(1 for _ in G.fa_cases(2, 2, 0, 12))
    assert n == G.fa_count(2, 2, 0, 12) == 65536, n
    n = sum(1 for _ in G.fa_cases(3, 2, 0, 3))
    assert n == G.fa_count(3, 2, 0, 3) == 211456, n
    words = list(R.all_words(["a", "b"], 4))
    checked = 0
    for case in G.fa_cases(2, 2, 0, 3):
        if not G.is_rep(case):
            continue
        r = O.ref_from_case(case)
        for w in words:
            assert r.accepts(w) == r.accepts_b(w), (case, w)
        assert R.minimal_dfa(r, ["a", "b"]) == R.minimal_dfa_brzozowski(r, ["a", "b"]), case
        assert r.is_empty() == (not r.words_upto(3)), case
        assert R.distinguish(r, r.reverse().reverse()) is None
        checked += 1
    return "fa: counts ok, %d automata x %d words: formulations agree" % (checked, len(words))


def _ownership():
    """Same battery under a fixed salt and PYTHONHASHSEED 0,1,2 must give
    identical observation digests (the hook owns set order)."""
    import subprocess, os
    here = os.path.dirname(os.path.dirname(os.path.abspath(__file__)))
    out = []
    for hs in ("0", "1", "2"):
        env = dict(os.environ, PYTHONHASHSEED=hs)
        r = subprocess.run([sys.executable, "-m", "vt.ownership", "7"], cwd=here, env=env,
                           capture_output=True, text=True, timeout=600)
        assert r.returncode == 0, r.stderr[-2000:]
        out.append(r.stdout.strip().splitlines()[-1])
    assert len(set(out)) == 1, out
    return "ownership: digest identical under salt 7 for PYTHONHASHSEED 0,1,2 (%s)" % out[0]


def main():
    t0 = time.time()
    try:
        for f in (_fa, _ownership):
            print("selftest", f())
    except AssertionError as e:
        print("HARNESS-ERROR selftest failed:", repr(e)[:2000])
        return 2
    print("selftest ok in %.1fs" % (time.time() - t0))
    return 0
