"""Observation digest of a battery of library calls on string-named inputs under
a given salt (python -m vt.ownership <salt>)."""
import hashlib
import sys


def main():
    from . import loader, order
    loader.load_all()
    from .gen import fa as G
    from . import observe as O
    salt = sys.argv[1]
    order.set_policy(salt)
    h = hashlib.blake2b(digest_size=8)
    k = 0
    for case in G.fa_cases(3, 2, 2, 2):
        k += 1
        if k % 37:
            continue
        a = O.build_fa(case, "enfa", "str")
        d = a.to_deterministic()
        m = d.minimize()
        obs = [sorted(map(str, d.states)), sorted(map(str, m.states)),
               [[str(s) for s in w] for w in a.get_accepted_words(2)],
               str(a.to_regex()) if len(a.start_states) == 1 else "",
               sorted(str(t) for t in a.get_complement()), sorted(str(t) for t in a.reverse())]
        h.update(repr(obs).encode())
    print(h.hexdigest())


if __name__ == "__main__":
    main()
