"""Order scheduler: owns the iteration order of set / frozenset objects inside
library code (see DESIGN.md 2.2).

The loader rewrites every iteration point ``for x in E`` / ``list(E)`` / ... in
pyformlang to ``__vt_ord__(E)``.  Under policy ``None`` ("natural") the value is
returned untouched.  Under a salt policy, sets and frozensets are returned as a
list sorted by a salted hash of a *stable structural rendering* of each
element: a pure function of the element value, hence a global total order --
two iterations over equal sets agree, which is the only guarantee CPython
gives and the only one library code may rely on.
"""
import builtins
from hashlib import blake2b

_SALT = None          # None == natural order
_MEMO = {}
_CALLS = 0            # number of set iterations re-ordered (evidence)


def stable_repr(x, depth=0):
    """Hash-seed independent structural rendering of a value."""
    t = type(x)
    if t is str:
        return "s:" + x
    if t is int or t is bool or t is float or x is None:
        return t.__name__ + ":" + repr(x)
    if depth > 6:
        return "deep:" + t.__name__
    if t is tuple or t is list:
        return t.__name__ + "(" + ",".join(stable_repr(y, depth + 1) for y in x) + ")"
    if t is frozenset or t is set:
        return t.__name__ + "{" + ",".join(sorted(stable_repr(y, depth + 1) for y in x)) + "}"
    if t is dict:
        return "dict{" + ",".join(sorted(stable_repr(k, depth + 1) + "=" + stable_repr(v, depth + 1)
                                        for k, v in x.items())) + "}"
    name = t.__name__
    try:
        if hasattr(x, "head") and hasattr(x, "body"):
            return name + "<" + stable_repr(x.head, depth + 1) + "->" + \
                stable_repr(tuple(x.body), depth + 1) + ">"
        if hasattr(x, "value"):
            return name + "<" + stable_repr(x.value, depth + 1) + ">"
    except Exception:  # pragma: no cover - exotic objects
        pass
    d = getattr(x, "__dict__", None)
    if d is not None:
        return name + "<" + ",".join(k + "=" + stable_repr(v, depth + 1) for k, v in sorted(d.items())) + ">"
    return name + ":" + repr(x)


def _key(x):
    memo = _MEMO
    try:
        mk = (type(x), x)
        k = memo.get(mk)
        if k is not None:
            return k
    except TypeError:
        mk = None
    k = blake2b((_SALT + stable_repr(x)).encode("utf-8", "surrogatepass"), digest_size=8).digest()
    if mk is not None:
        if len(memo) > 200000:
            memo.clear()
        memo[mk] = k
    return k


def vt_ord(x):
    """Installed as builtins.__vt_ord__."""
    if _SALT is None:
        return x
    t = type(x)
    if t is set or t is frozenset:
        global _CALLS
        _CALLS += 1
        if len(x) < 2:
            return list(x)
        return sorted(x, key=_key)
    return x


builtins.__vt_ord__ = vt_ord


def set_policy(policy):
    """policy: None / "natural" -> natural order; any other str/int -> salt."""
    global _SALT, _MEMO
    if policy is None or policy == "natural":
        _SALT = None
    else:
        s = "salt%s|" % (policy,)
        if s != _SALT:
            _SALT = s
            _MEMO = {}


def get_policy():
    return None if _SALT is None else _SALT[4:-1]


def order_of(values, policy):
    """The order the given policy induces on ``values`` (used for coverage
    reporting and for choosing order-complete salt families)."""
    old = _SALT
    set_policy(policy)
    try:
        if _SALT is None:
            return list(values)
        return sorted(values, key=_key)
    finally:
        globals()["_SALT"] = old
        _MEMO.clear()


def calls():
    return _CALLS
