"""Reference semantics of feature structures and of feature grammars (no pyformlang code).

A feature structure is a rooted graph: a node has either an atomic value (or is unspecified: None) or features
leading to nodes; nodes may be shared (re-entrancy).  Spec of a structure (how the enumerator describes it):
  ("atom", v, tag)          leaf with value v (None = unspecified); equal tags != None denote the same node
  ("node", {feature: spec}) complex node
Unification = most general unifier by union-find with congruence closure; clash = two different atoms in one class.
Observable of a structure: for every path from the root: its atom (or None) and its class; compared as
(frozenset of paths, path -> atom, partition of paths into classes).
"""


class Node:
    __slots__ = ("value", "feats", "parent")

    def __init__(self, value=None):
        self.value = value
        self.feats = {}
        self.parent = None

    def find(self):
        n = self
        while n.parent is not None:
            n = n.parent
        return n


def build(spec, shared=None):
    shared = {} if shared is None else shared
    if spec[0] == "atom":
        tag = spec[2]
        if tag is not None and tag in shared:
            return shared[tag]
        n = Node(spec[1])
        if tag is not None:
            shared[tag] = n
        return n
    n = Node()
    for f, s in spec[1].items():
        n.feats[f] = build(s, shared)
    return n


class Clash(Exception):
    pass


def unify(a, b):
    """destructively merges b into a (both roots of reference graphs); raises Clash"""
    todo = [(a, b)]
    while todo:
        x, y = todo.pop()
        x, y = x.find(), y.find()
        if x is y:
            continue
        if x.value is not None and y.value is not None and x.value != y.value:
            raise Clash()
        if (x.value is not None and y.feats) or (y.value is not None and x.feats):
            raise Clash()
        y.parent = x
        if x.value is None:
            x.value = y.value
        for f, child in y.feats.items():
            if f in x.feats:
                todo.append((x.feats[f], child))
            else:
                x.feats[f] = child
    return a


def observable(root, max_depth=4):
    """(paths, atoms, classes): paths = frozenset of all paths (tuples), atoms = {path: value}, classes =
    frozenset of frozensets of paths that denote the same node (only classes with >= 2 paths)."""
    paths, atoms, by_node = set(), {}, {}
    todo = [((), root.find())]
    while todo:
        p, n = todo.pop()
        paths.add(p)
        atoms[p] = n.value
        by_node.setdefault(id(n), set()).add(p)
        if len(p) < max_depth:
            for f, c in n.feats.items():
                todo.append((p + (f,), c.find()))
    classes = frozenset(frozenset(v) for v in by_node.values() if len(v) > 1)
    return frozenset(paths), atoms, classes
