"""Reference semantics of pushdown automata (no pyformlang code).

A PDA is (states, start, start_stack, finals, trans) with trans a collection of
(p, a, X, r, gamma): in state p, reading a (None = epsilon) with X on top, go to r
replacing X by gamma (gamma[0] becomes the new top).

Formulation A: least fixpoint of bounded word sets over the summaries
  R(p, X, q) = words (<= n) that lead from p with X on top to q with X popped (net)
  F(p, X)    = (word, state) pairs reachable from p with just X above the rest of the stack
exact for all words of length <= n, also with stack-growing epsilon cycles.
Formulation B: breadth-first search over configurations with a stack-depth cap
(sound for acceptance; complete whenever no configuration was cut).
"""
from collections import deque


class PDA:
    def __init__(self, states, start, start_stack, finals, trans):
        self.states = set(states)
        self.start = start
        self.start_stack = start_stack
        self.finals = set(finals)
        self.trans = sorted(set((p, a, X, r, tuple(g)) for p, a, X, r, g in trans), key=repr)
        for p, a, X, r, g in self.trans:
            self.states |= {p, r}
        self.stack = {X for _, _, X, _, _ in self.trans} | {Y for *_, g in self.trans for Y in g}
        if start_stack is not None:
            self.stack.add(start_stack)
        if start is not None:
            self.states.add(start)

    # ---------------------------------------------------------------- formulation A
    def summaries(self, n):
        states = sorted(self.states, key=repr)
        R = {}

        def getR(p, X, q):
            return R.get((p, X, q), ())
        changed = True
        while changed:
            changed = False
            for p, a, X, r, g in self.trans:
                pre = () if a is None else (a,)
                if len(pre) > n:
                    continue
                # chains through g: map state -> set of words
                cur = {r: {pre}}
                for Y in g:
                    nxt = {}
                    for s, ws in cur.items():
                        for q in states:
                            rs = getR(s, Y, q)
                            if not rs:
                                continue
                            tgt = None
                            for w in ws:
                                for u in rs:
                                    if len(w) + len(u) <= n:
                                        if tgt is None:
                                            tgt = nxt.setdefault(q, set())
                                        tgt.add(w + u)
                    cur = nxt
                    if not cur:
                        break
                for q, ws in cur.items():
                    have = R.get((p, X, q))
                    if have is None:
                        R[(p, X, q)] = set(ws)
                        changed = True
                    elif not ws <= have:
                        have |= ws
                        changed = True
        return R

    def lang_empty_stack(self, n):
        if self.start is None or self.start_stack is None:
            return set()
        R = self.summaries(n)
        out = set()
        for q in self.states:
            out |= R.get((self.start, self.start_stack, q), set())
        return out

    def lang_final_state(self, n):
        if self.start is None or self.start_stack is None:
            return set()
        R = self.summaries(n)
        states = sorted(self.states, key=repr)
        F = {}
        for p in self.states:
            for X in self.stack:
                F[(p, X)] = {((), p)}
        changed = True
        while changed:
            changed = False
            for p, a, X, r, g in self.trans:
                pre = () if a is None else (a,)
                if len(pre) > n:
                    continue
                add = set()
                if not g:
                    add.add((pre, r))
                cur = {r: {pre}}
                for Y in g:
                    # stop inside Y
                    for s, ws in cur.items():
                        for (u, q) in F.get((s, Y), ()):
                            for w in ws:
                                if len(w) + len(u) <= n:
                                    add.add((w + u, q))
                    # or pop Y completely and go on
                    nxt = {}
                    for s, ws in cur.items():
                        for q in states:
                            rs = R.get((s, Y, q))
                            if not rs:
                                continue
                            for w in ws:
                                for u in rs:
                                    if len(w) + len(u) <= n:
                                        nxt.setdefault(q, set()).add(w + u)
                    cur = nxt
                    if not cur:
                        break
                else:
                    # all of g popped: stack (above the rest) is empty, state reached
                    for q, ws in cur.items():
                        for w in ws:
                            add.add((w, q))
                have = F[(p, X)]
                if not add <= have:
                    have |= add
                    changed = True
        return {w for (w, q) in F[(self.start, self.start_stack)] if q in self.finals}

    # ---------------------------------------------------------------- formulation B
    def accepts_bfs(self, word, mode, depth=8, max_conf=200000):
        """-> (accepted, cut): BFS over (position, state, stack) with stack depth <= depth."""
        word = tuple(word)
        if self.start is None or self.start_stack is None:
            return False, False
        by = {}
        for p, a, X, r, g in self.trans:
            by.setdefault((p, X), []).append((a, r, g))
        start = (0, self.start, (self.start_stack,))
        seen = {start}
        todo = deque([start])
        cut = False
        while todo:
            i, p, st = todo.popleft()
            if i == len(word):
                if mode == "final" and p in self.finals:
                    return True, cut
                if mode == "empty" and not st:
                    return True, cut
            if not st:
                continue
            for a, r, g in by.get((p, st[0]), ()):
                if a is None:
                    j = i
                elif i < len(word) and word[i] == a:
                    j = i + 1
                else:
                    continue
                ns = g + st[1:]
                if len(ns) > depth:
                    cut = True
                    continue
                c = (j, r, ns)
                if c not in seen:
                    seen.add(c)
                    if len(seen) > max_conf:
                        return False, True
                    todo.append(c)
        return False, cut

    def describe(self):
        return {"start": repr(self.start), "start_stack": repr(self.start_stack), "finals": sorted(map(repr, self.finals)),
                "trans": ["%r,%s,%r -> %r,%r" % (p, "eps" if a is None else a, X, r, list(g)) for p, a, X, r, g in self.trans]}
