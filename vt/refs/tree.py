"""Validation of parse trees and derivations handed out by the library, against
a reference Gram.  Works on ParseTree-like objects through .value / .sons only."""


def sym_of(m, x):
    if isinstance(x, m.Variable):
        return ("V", x.value)
    if isinstance(x, m.Terminal):
        return ("T", x.value)
    return ("?", repr(x))


def validate_tree(m, tree, g, word, max_nodes=400):
    """-> None when the tree is a derivation tree of `word` (tuple of terminal values) in g; else a reason."""
    prods = set(g.prods)
    root = sym_of(m, tree.value)
    if root != g.start:
        return "root %r is not the start symbol %r" % (root, g.start)
    on_path, seen, frontier = set(), set(), []
    count = [0]
    # iterative DFS keeping the path for cycle detection and ids for sharing
    stack = [(tree, 0)]
    path = []
    while stack:
        node, state = stack.pop()
        if state == 1:
            on_path.discard(id(node))
            continue
        if id(node) in on_path:
            return "cyclic object graph"
        # a completed subtree may be shared between two parents (a DAG read as a tree): the property does not
        # forbid that; only a cycle makes the object not a tree
        count[0] += 1
        if count[0] > max_nodes:
            return "tree has more than %d nodes" % max_nodes
        s = sym_of(m, node.value)
        sons = list(node.sons)
        if not sons:
            if s[0] == "V":
                if (s, ()) not in prods:
                    return "childless variable %r without epsilon production" % (s,)
            elif s[0] == "T":
                frontier.append(s[1])
            else:
                return "leaf of unknown kind %r" % (s,)
            continue
        if s[0] != "V":
            return "inner node %r is not a variable" % (s,)
        body = tuple(sym_of(m, x.value) for x in sons)
        if (s, body) not in prods:
            return "%r -> %r is not a production" % (s, body)
        on_path.add(id(node))
        stack.append((node, 1))
        for x in reversed(sons):
            stack.append((x, 0))
    if tuple(frontier) != tuple(word):
        return "frontier %r differs from the word %r" % (tuple(frontier), tuple(word))
    return None


def validate_derivation(m, lines, g, word, root, leftmost=True):
    """lines: list of sentential forms (lists of CFG objects)."""
    if not lines:
        return "empty derivation"
    forms = [tuple(sym_of(m, x) for x in line) for line in lines]
    if forms[0] != (root,):
        return "first line %r is not the root symbol" % (forms[0],)
    prods = set(g.prods)
    for a, b in zip(forms, forms[1:]):
        idx = [i for i, s in enumerate(a) if s[0] == "V"]
        if not idx:
            return "step from a form without variable"
        i = idx[0] if leftmost else idx[-1]
        # b must be a[:i] + body + a[i+1:]
        k = len(b) - (len(a) - 1)
        if k < 0:
            return "step shrinks too much"
        body = b[i:i + k]
        if a[:i] != b[:i] or a[i + 1:] != b[i + k:] or (a[i], tuple(body)) not in prods:
            return "step %r => %r does not rewrite the %s variable by a production" % (
                a, b, "leftmost" if leftmost else "rightmost")
    last = forms[-1]
    if any(s[0] != "T" for s in last) or tuple(s[1] for s in last) != tuple(word):
        return "last line %r is not the word %r" % (last, tuple(word))
    return None


def frontier(m, tree, max_nodes=400):
    """terminal frontier of a (sub)tree, None when it is not a finite tree"""
    out, stack, n = [], [tree], 0
    while stack:
        node = stack.pop()
        n += 1
        if n > max_nodes:
            return None
        sons = list(node.sons)
        if not sons:
            s = sym_of(m, node.value)
            if s[0] == "T":
                out.append(s[1])
        else:
            stack.extend(reversed(sons))
    return tuple(out)
