"""Reference semantics of finite-state transducers (no pyformlang code).

trans: collection of (p, a, q, out) with a None for an epsilon-input move and out a tuple of output symbols.
relation(w) = set of output words o such that some path from a start state to a final state reads w and writes o.
Formulation A: BFS over (position, state, output); finite because epsilon cycles write nothing (precondition,
checked by has_writing_eps_cycle).  Formulation B: explicit path enumeration up to a length bound.
"""
from collections import deque


class FST:
    def __init__(self, states, starts, finals, trans):
        self.states = set(states)
        self.starts = set(starts)
        self.finals = set(finals)
        self.trans = sorted(set((p, a, q, tuple(o)) for p, a, q, o in trans), key=repr)
        self.by = {}
        for p, a, q, o in self.trans:
            self.by.setdefault((p, a), []).append((q, o))
            self.states |= {p, q}
        self.states |= self.starts | self.finals

    def has_writing_eps_cycle(self):
        eps = [(p, q, o) for p, a, q, o in self.trans if a is None]
        succ = {}
        for p, q, o in eps:
            succ.setdefault(p, set()).add(q)

        def reach(x):
            seen, todo = set(), [x]
            while todo:
                y = todo.pop()
                for z in succ.get(y, ()):
                    if z not in seen:
                        seen.add(z)
                        todo.append(z)
            return seen
        for p, q, o in eps:
            if o and p in (reach(q) | ({q} if q == p else set())):
                return True
        return False

    def relation(self, word):
        word = tuple(word)
        out = set()
        seen = set()
        todo = deque((0, s, ()) for s in self.starts)
        while todo:
            c = todo.popleft()
            if c in seen:
                continue
            seen.add(c)
            i, p, o = c
            if i == len(word) and p in self.finals:
                out.add(o)
            for q, w in self.by.get((p, None), ()):
                todo.append((i, q, o + w))
            if i < len(word):
                for q, w in self.by.get((p, word[i]), ()):
                    todo.append((i + 1, q, o + w))
        return out

    def relation_b(self, word, max_path=12):
        """all paths of length <= max_path (formulation B; must be a subset of A and equal when no path was cut)"""
        word = tuple(word)
        out = set()
        cut = [False]

        def go(i, p, o, n):
            if i == len(word) and p in self.finals:
                out.add(o)
            if n == max_path:
                cut[0] = True
                return
            for q, w in self.by.get((p, None), ()):
                go(i, q, o + w, n + 1)
            if i < len(word):
                for q, w in self.by.get((p, word[i]), ()):
                    go(i + 1, q, o + w, n + 1)
        for s in self.starts:
            go(0, s, (), 0)
        return out, cut[0]

    def describe(self):
        return {"starts": sorted(map(repr, self.starts)), "finals": sorted(map(repr, self.finals)),
                "trans": ["%r -%s/%s-> %r" % (p, "eps" if a is None else a, "".join(map(str, o)) or "-", q)
                          for p, a, q, o in self.trans]}


def concat_rel(A, B, word):
    word = tuple(word)
    out = set()
    for i in range(len(word) + 1):
        ra = A.relation(word[:i])
        if not ra:
            continue
        rb = B.relation(word[i:])
        out |= {x + y for x in ra for y in rb}
    return out


def star_rel(A, word):
    """Kleene star of the relation of A on `word`; requires that A relates the empty input to the empty output only."""
    word = tuple(word)
    n = len(word)
    S = [set() for _ in range(n + 1)]
    S[0] = {()}
    for j in range(1, n + 1):
        for i in range(j):
            if S[i]:
                r = A.relation(word[i:j])
                S[j] |= {x + y for x in S[i] for y in r}
    return S[n]
