"""Reference semantics of regular expressions (no pyformlang code).

AST: ("sym", v) | ("eps",) | ("empty",) | ("cat", l, r) | ("alt", l, r) | ("star", x)

Formulation A: own Thompson-style translation to the reference NFA (then all of
refs.nfa applies: exact equivalence, words).  Formulation B: bounded
denotational semantics (set of words of length <= n by structural recursion).

Also: an independent tokenizer + recursive-descent parser for the documented
pyformlang regex syntax, classifying a text as WELL (AST) / ILL / UNSPEC.
"""
from .nfa import NFA, EPS


def to_nfa(ast):
    n = NFA()
    counter = [0]

    def fresh():
        counter[0] += 1
        return counter[0]

    def go(t, s, f):
        k = t[0]
        if k == "sym":
            n.add(s, t[1], f)
        elif k == "eps":
            n.add(s, EPS, f)
        elif k == "empty":
            pass
        elif k == "cat":
            m1, m2 = fresh(), fresh()
            go(t[1], s, m1)
            n.add(m1, EPS, m2)
            go(t[2], m2, f)
        elif k == "alt":
            for sub in (t[1], t[2]):
                a, b = fresh(), fresh()
                n.add(s, EPS, a)
                n.add(b, EPS, f)
                go(sub, a, b)
        elif k == "star":
            a, b = fresh(), fresh()
            n.add(s, EPS, f)
            n.add(s, EPS, a)
            n.add(b, EPS, a)
            n.add(b, EPS, f)
            go(t[1], a, b)
        else:
            raise ValueError(t)
    s, f = fresh(), fresh()
    n.states |= {s, f}
    n.starts, n.finals = {s}, {f}
    go(ast, s, f)
    return n


def words_upto(ast, n):
    """Formulation B: denotation restricted to words of length <= n."""
    k = ast[0]
    if k == "sym":
        return {(ast[1],)} if n >= 1 else set()
    if k == "eps":
        return {()}
    if k == "empty":
        return set()
    if k == "alt":
        return words_upto(ast[1], n) | words_upto(ast[2], n)
    if k == "cat":
        A, B = words_upto(ast[1], n), words_upto(ast[2], n)
        return {u + v for u in A for v in B if len(u) + len(v) <= n}
    if k == "star":
        A = words_upto(ast[1], n) - {()}
        out = {()}
        frontier = {()}
        while frontier:
            nxt = {u + v for u in frontier for v in A if len(u) + len(v) <= n} - out
            out |= nxt
            frontier = nxt
        return out
    raise ValueError(ast)


def symbols(ast):
    if ast[0] == "sym":
        return {ast[1]}
    out = set()
    for sub in ast[1:]:
        if isinstance(sub, tuple):
            out |= symbols(sub)
    return out


def from_lib(regex):
    """Library Regex tree -> AST, walking only head / sons; node kinds are
    recognised by class name."""
    name = type(regex.head).__name__
    sons = regex.sons or []
    if name == "Concatenation":
        return ("cat", from_lib(sons[0]), from_lib(sons[1]))
    if name == "Union":
        return ("alt", from_lib(sons[0]), from_lib(sons[1]))
    if name == "KleeneStar":
        return ("star", from_lib(sons[0]))
    if name == "Epsilon":
        return ("eps",)
    if name == "Empty":
        return ("empty",)
    if name == "Symbol":
        return ("sym", regex.head.value)
    raise ValueError("unknown regex node " + name)


# ------------------------------------------------------------------ parser
SPECIAL_1 = set(".|+*()$")


class Ill(Exception):
    pass


class Unspec(Exception):
    pass


def tokenize(text):
    """Tokens: ('op', c) for . | + * ( ) ; ('eps',) for epsilon / $ ; ('sym', v).
    A backslash escapes the next character (it then belongs to a symbol token).
    Tokens are separated by blanks or by unescaped operator characters."""
    toks = []
    cur = None   # list of chars of the current symbol token, and whether it contains an escape
    esc_in = False
    i, n = 0, len(text)

    def flush():
        nonlocal cur, esc_in
        if cur is not None:
            v = "".join(cur)
            if v == "epsilon" and not esc_in:
                toks.append(("eps",))
            else:
                toks.append(("sym", v, esc_in))
            cur, esc_in = None, False
    while i < n:
        c = text[i]
        if c == "\\":
            if i + 1 >= n:
                raise Unspec("trailing backslash")
            if cur is not None:
                raise Unspec("escape in the middle of a token")
            if text[i + 1] == "\\":
                raise Unspec("escaped backslash")
            nxt = text[i + 2] if i + 2 < n else " "
            if nxt != " " and nxt not in SPECIAL_1:
                raise Unspec("escape glued to other characters")
            toks.append(("sym", text[i + 1], True))
            i += 2
            continue
        if c == " ":
            flush()
        elif c in SPECIAL_1:
            flush()
            toks.append(("eps",) if c == "$" else ("op", c))
        else:
            if cur is None:
                cur = []
            cur.append(c)
        i += 1
    flush()
    return toks


def parse(text):
    """-> AST; raises Ill for text the documented grammar refuses, Unspec for
    text the documentation does not settle."""
    toks = tokenize(text)
    if not toks:
        raise Unspec("empty text")
    # constructs the documentation does not settle make the whole text UNSPEC, wherever they occur
    BIN = (("op", "|"), ("op", "+"), ("op", "."))
    for i, t in enumerate(toks):
        nxt = toks[i + 1] if i + 1 < len(toks) else None
        if t == ("op", "(") and nxt == ("op", ")"):
            raise Unspec("empty group")
        if t in BIN and (nxt is None or nxt == ("op", ")") or nxt in BIN or nxt == ("op", "*")):
            raise Unspec("binary operator without right operand / consecutive operators")
    pos = [0]

    def peek():
        return toks[pos[0]] if pos[0] < len(toks) else None

    def union():
        left = concat()
        while peek() in (("op", "|"), ("op", "+")):
            pos[0] += 1
            nxt = peek()
            if nxt is None or nxt == ("op", ")"):
                raise Unspec("binary operator without right operand")
            if nxt in (("op", "|"), ("op", "+"), ("op", "."), ("op", "*")):
                raise Unspec("consecutive operators")
            right = concat()
            left = ("alt", left, right)
        return left

    def concat():
        left = star()
        while True:
            t = peek()
            if t is None or t in (("op", "|"), ("op", "+"), ("op", ")")):
                return left
            if t == ("op", "."):
                pos[0] += 1
                nxt = peek()
                if nxt is None or nxt == ("op", ")"):
                    raise Unspec("binary operator without right operand")
                if nxt in (("op", "|"), ("op", "+"), ("op", "."), ("op", "*")):
                    raise Unspec("consecutive operators")
            right = star()
            left = ("cat", left, right)

    def star():
        a = atom()
        while peek() == ("op", "*"):
            pos[0] += 1
            a = ("star", a)
        return a

    def atom():
        t = peek()
        if t is None:
            raise Ill("operand expected at end")
        if t == ("op", "("):
            pos[0] += 1
            if peek() == ("op", ")"):
                raise Unspec("empty group")
            e = union()
            if peek() != ("op", ")"):
                raise Ill("unbalanced parenthesis")
            pos[0] += 1
            return e
        if t[0] == "eps":
            pos[0] += 1
            return ("eps",)
        if t[0] == "sym":
            pos[0] += 1
            return ("sym", t[1])
        if t == ("op", ")"):
            raise Ill("unbalanced parenthesis")
        raise Ill("operator %s with no left operand" % t[1])

    e = union()
    if peek() is not None:
        if peek() == ("op", ")"):
            raise Ill("unbalanced parenthesis")
        raise Ill("trailing tokens")
    return e
