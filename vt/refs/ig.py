"""Reference semantics of reduced-form indexed grammars (no pyformlang code).

Rules (tuples):
  ("end",  A, a)        A[s]   -> a          (a terminal; "epsilon" = empty word)
  ("prod", A, B, f)     A[s]   -> B[f s]     (push f)
  ("cons", f, A, B)     A[f s] -> B[s]       (pop f)
  ("dup",  A, B, C)     A[s]   -> B[s] C[s]

Formulation A (exact): stack-profile fixpoint.  The profile of a stack s is G(s) = {A : A[s] derives a terminal
word}.  G(f s) = H(f, G(s)) for a monotone H; H and G([]) are the least solution of
  H(g, X) = End  u  {A : A -> B C, B, C in H(g, X)}  u  {A : A -> B[h], B in H(h, H(g, X))}  u  {A : A[g.] -> B, B in X}
computed by demand-driven chaotic iteration (g = None for the empty stack).
Formulation B: explicit closure over all stacks of depth <= d (sound for non-emptiness).
"""
from itertools import product


class IG:
    def __init__(self, rules, start="S"):
        self.rules = list(rules)
        self.start = start
        self.ends = {r[1] for r in self.rules if r[0] == "end"}
        self.dups = [r[1:] for r in self.rules if r[0] == "dup"]
        self.prods = [r[1:] for r in self.rules if r[0] == "prod"]
        self.cons = {}
        for r in self.rules:
            if r[0] == "cons":
                self.cons.setdefault(r[1], []).append((r[2], r[3]))
        self.indices = sorted({r[3] for r in self.rules if r[0] == "prod"} | set(self.cons), key=repr)

    def profile_table(self):
        T = {}
        created = [False]

        def get(key):
            if key not in T:
                T[key] = frozenset()
                created[0] = True       # a key demanded for the first time has to be iterated as well
            return T[key]
        get((None, frozenset()))
        changed = True
        while changed or created[0]:
            changed = False
            created[0] = False
            for key in list(T):
                g, X = key
                Y = T[key]
                new = set(self.ends) | set(Y)
                for A, B, C in self.dups:
                    if B in Y and C in Y:
                        new.add(A)
                for A, B, h in self.prods:
                    if A not in new and B in get((h, Y)):
                        new.add(A)
                if g is not None:
                    for A, B in self.cons.get(g, ()):
                        if B in X:
                            new.add(A)
                new = frozenset(new)
                if new != Y:
                    T[key] = new
                    changed = True
        return T

    def generating_at_empty_stack(self):
        return self.profile_table()[(None, frozenset())]

    def is_empty(self):
        return self.start not in self.generating_at_empty_stack()

    # ---- formulation B
    def is_nonempty_bounded(self, depth=5):
        """True when a derivation exists that never uses a stack deeper than `depth` (sound for non-emptiness)."""
        stacks = [()]
        for d in range(1, depth + 1):
            stacks += list(product(self.indices, repeat=d))
        gen = set()
        changed = True
        while changed:
            changed = False
            for s in stacks:
                for A in self.ends:
                    if (A, s) not in gen:
                        gen.add((A, s))
                        changed = True
                for A, B, C in self.dups:
                    if (A, s) not in gen and (B, s) in gen and (C, s) in gen:
                        gen.add((A, s))
                        changed = True
                for A, B, h in self.prods:
                    if (A, s) not in gen and len(s) < depth and (B, (h,) + s) in gen:
                        gen.add((A, s))
                        changed = True
                if s:
                    for A, B in self.cons.get(s[0], ()):
                        if (A, s) not in gen and (B, s[1:]) in gen:
                            gen.add((A, s))
                            changed = True
        return (self.start, ()) in gen

    def describe(self):
        out = []
        for r in self.rules:
            if r[0] == "end":
                out.append("%s -> %s" % (r[1], r[2]))
            elif r[0] == "prod":
                out.append("%s -> %s[%s]" % (r[1], r[2], r[3]))
            elif r[0] == "cons":
                out.append("%s[%s] -> %s" % (r[2], r[1], r[3]))
            else:
                out.append("%s -> %s %s" % (r[1], r[2], r[3]))
        return out


def intersect_regular(ig, nfa):
    """Own triple construction: non-terminals (p, A, q) -- A[s] derives a word leading the automaton from p to q.
    -> True iff some word derivable from the start variable (empty stack) is accepted by nfa (reference NFA,
    epsilon moves allowed)."""
    states = sorted(nfa.states, key=repr)
    clos = {p: nfa.closure([p]) for p in states}
    rules = []
    for r in ig.rules:
        if r[0] == "end":
            A, a = r[1], r[2]
            for p in states:
                if a == "epsilon":
                    targets = clos[p]
                else:
                    targets = nfa.step(clos[p], a)
                for q in targets:
                    rules.append(("end", (p, A, q), "x"))
        elif r[0] == "prod":
            for p in states:
                for q in states:
                    rules.append(("prod", (p, r[1], q), (p, r[2], q), r[3]))
        elif r[0] == "cons":
            for p in states:
                for q in states:
                    rules.append(("cons", r[1], (p, r[2], q), (p, r[3], q)))
        else:
            for p in states:
                for q in states:
                    for m in states:
                        rules.append(("dup", (p, r[1], q), (p, r[2], m), (m, r[3], q)))
    big = IG(rules, None)
    gen = big.generating_at_empty_stack()
    return any((p, ig.start, q) in gen for p in nfa.starts for q in nfa.finals)
