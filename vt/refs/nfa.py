"""Reference semantics of finite automata (no pyformlang code).

Formulation A: subset simulation with epsilon closure; language equality by
BFS over the product of the two subset automata (exact, returns a shortest
distinguishing word).  Formulation B (cross-check in selftest): explicit run
search over (position, state) pairs.
"""
from collections import deque
from itertools import product

EPS = None  # the epsilon label in reference structures


class NFA:
    def __init__(self, states=(), starts=(), finals=(), trans=()):
        """trans: iterable of (p, a, q), a is EPS for epsilon moves."""
        self.states = set(states)
        self.starts = set(starts)
        self.finals = set(finals)
        self.delta = {}
        self.eps = {}
        self.alphabet = set()
        self.trans = set()
        for p, a, q in trans:
            self.add(p, a, q)
        self.states |= self.starts | self.finals

    def add(self, p, a, q):
        self.trans.add((p, a, q))
        self.states.add(p)
        self.states.add(q)
        if a is EPS:
            self.eps.setdefault(p, set()).add(q)
        else:
            self.alphabet.add(a)
            self.delta.setdefault((p, a), set()).add(q)

    # -- formulation A
    def closure(self, S):
        S = set(S)
        todo = list(S)
        while todo:
            p = todo.pop()
            for q in self.eps.get(p, ()):
                if q not in S:
                    S.add(q)
                    todo.append(q)
        return frozenset(S)

    def step(self, S, a):
        T = set()
        for p in S:
            T |= self.delta.get((p, a), set())
        return self.closure(T)

    def start_set(self):
        return self.closure(self.starts)

    def accepts(self, word):
        S = self.start_set()
        for a in word:
            S = self.step(S, a)
            if not S:
                return False
        return bool(S & self.finals)

    # -- formulation B: some run spells the word
    def accepts_b(self, word):
        word = tuple(word)
        seen = set()
        todo = [(0, s) for s in self.starts]
        while todo:
            i, p = todo.pop()
            if (i, p) in seen:
                continue
            seen.add((i, p))
            if i == len(word) and p in self.finals:
                return True
            for q in self.eps.get(p, ()):
                todo.append((i, q))
            if i < len(word):
                for q in self.delta.get((p, word[i]), ()):
                    todo.append((i + 1, q))
        return False

    def is_empty(self):
        seen = set(self.starts)
        todo = list(seen)
        while todo:
            p = todo.pop()
            if p in self.finals:
                return False
            for (p0, a), Q in self.delta.items():
                if p0 == p:
                    for q in Q:
                        if q not in seen:
                            seen.add(q)
                            todo.append(q)
            for q in self.eps.get(p, ()):
                if q not in seen:
                    seen.add(q)
                    todo.append(q)
        return True

    def succ(self, p):
        out = set(self.eps.get(p, ()))
        for (p0, a), Q in self.delta.items():
            if p0 == p:
                out |= Q
        return out

    def reachable(self):
        seen = set(self.starts)
        todo = list(seen)
        while todo:
            p = todo.pop()
            for q in self.succ(p):
                if q not in seen:
                    seen.add(q)
                    todo.append(q)
        return seen

    def has_reachable_cycle(self):
        """A cycle (epsilon edges included, self loops included) among the
        states reachable from a start state."""
        R = self.reachable()
        color = {}
        for root in R:
            if root in color:
                continue
            stack = [(root, iter(self.succ(root)))]
            color[root] = 1
            while stack:
                p, it = stack[-1]
                for q in it:
                    c = color.get(q)
                    if c == 1:
                        return True
                    if c is None:
                        color[q] = 1
                        stack.append((q, iter(self.succ(q))))
                        break
                else:
                    color[p] = 2
                    stack.pop()
        return False

    def is_deterministic_struct(self):
        """<=1 start state, <=1 successor per (state, symbol), no epsilon move to
        another state."""
        if len(self.starts) > 1:
            return False
        if any(len(Q) > 1 for Q in self.delta.values()):
            return False
        return all(Q <= {p} for p, Q in self.eps.items())

    def dfa(self, alphabet=None):
        """Subset automaton restricted to non-empty subsets: (start, trans, finals, states);
        start may be the empty frozenset (then the language is empty)."""
        alphabet = sorted(self.alphabet if alphabet is None else alphabet, key=repr)
        s0 = self.start_set()
        trans, finals, seen = {}, set(), {s0}
        todo = deque([s0])
        while todo:
            S = todo.popleft()
            if S & self.finals:
                finals.add(S)
            for a in alphabet:
                T = self.step(S, a)
                if not T:
                    continue
                trans[(S, a)] = T
                if T not in seen:
                    seen.add(T)
                    todo.append(T)
        return s0, trans, finals, seen

    def language_finite(self):
        """Is the accepted language finite?  (trim subset automaton has no cycle)"""
        s0, trans, finals, seen = self.dfa()
        # co-reachable
        rev = {}
        for (S, a), T in trans.items():
            rev.setdefault(T, set()).add(S)
        co = set(finals)
        todo = list(co)
        while todo:
            T = todo.pop()
            for S in rev.get(T, ()):
                if S not in co:
                    co.add(S)
                    todo.append(S)
        useful = {S for S in seen if S in co}
        color = {}

        def succ(S):
            return [T for (S0, a), T in trans.items() if S0 == S and T in useful]
        for root in useful:
            if root in color:
                continue
            stack = [(root, iter(succ(root)))]
            color[root] = 1
            while stack:
                p, it = stack[-1]
                for q in it:
                    c = color.get(q)
                    if c == 1:
                        return False
                    if c is None:
                        color[q] = 1
                        stack.append((q, iter(succ(q))))
                        break
                else:
                    color[p] = 2
                    stack.pop()
        return True

    def words_upto(self, n, alphabet=None):
        """Set of accepted words (tuples) of length <= n."""
        alphabet = sorted(self.alphabet if alphabet is None else alphabet, key=repr)
        out = set()
        level = {(): self.start_set()}
        for k in range(n + 1):
            nxt = {}
            for w, S in level.items():
                if S & self.finals:
                    out.add(w)
                if k < n:
                    for a in alphabet:
                        T = self.step(S, a)
                        if T:
                            nxt[w + (a,)] = T
            level = nxt
        return out

    def all_words(self):
        """The whole language when finite (caller checked)."""
        return self.words_upto(len(self.dfa()[3]) + 1)

    def reverse(self):
        return NFA(self.states, self.finals, self.starts, [(q, a, p) for p, a, q in self.trans])

    def describe(self):
        return {"states": sorted(map(repr, self.states)), "starts": sorted(map(repr, self.starts)),
                "finals": sorted(map(repr, self.finals)),
                "trans": sorted((repr(p), "eps" if a is EPS else repr(a), repr(q)) for p, a, q in self.trans)}


def distinguish(A, B, alphabet=None):
    """None when L(A) == L(B); otherwise a shortest word in the symmetric
    difference (tuple).  Exact."""
    alphabet = sorted((A.alphabet | B.alphabet) if alphabet is None else alphabet, key=repr)
    s = (A.start_set(), B.start_set())
    seen = {s}
    todo = deque([(s, ())])
    while todo:
        (S, T), w = todo.popleft()
        if bool(S & A.finals) != bool(T & B.finals):
            return w
        for a in alphabet:
            n = (A.step(S, a), B.step(T, a))
            if not n[0] and not n[1]:
                continue
            if n not in seen:
                seen.add(n)
                todo.append((n, w + (a,)))
    return None


def distinguish_op(A, B, C, op, alphabet=None):
    """None when L(C) == op(L(A), L(B)) pointwise (op: (bool, bool) -> bool on
    membership), else a shortest witness word.  Exact."""
    alphabet = sorted((A.alphabet | B.alphabet | C.alphabet) if alphabet is None else alphabet, key=repr)
    s = (A.start_set(), B.start_set(), C.start_set())
    seen = {s}
    todo = deque([(s, ())])
    while todo:
        (S, T, U), w = todo.popleft()
        if bool(op(bool(S & A.finals), bool(T & B.finals))) != bool(U & C.finals):
            return w
        for a in alphabet:
            n = (A.step(S, a), B.step(T, a), C.step(U, a))
            if n not in seen:
                seen.add(n)
                todo.append((n, w + (a,)))
    return None


def complement_witness(A, C, alphabet):
    """None when L(C) == alphabet* minus L(A) (exact), else shortest witness."""
    return distinguish_op(A, A, C, lambda x, y: not x, alphabet)


def minimal_dfa(A, alphabet=None):
    """Moore refinement on the trimmed subset automaton.  Returns
    (n_states, start, trans{(i,a)->j}, finals) with states numbered in BFS
    order from the start -- a canonical form of the language (empty language:
    n_states == 0)."""
    alphabet = sorted(A.alphabet if alphabet is None else alphabet, key=repr)
    s0, trans, finals, seen = A.dfa(alphabet)
    rev = {}
    for (S, a), T in trans.items():
        rev.setdefault(T, set()).add(S)
    co = set(finals)
    todo = list(co)
    while todo:
        T = todo.pop()
        for S in rev.get(T, ()):
            if S not in co:
                co.add(S)
                todo.append(S)
    if s0 not in co:
        return (0, None, {}, set())
    useful = co  # all in `seen` are reachable
    DEAD = "dead"
    block = {S: (1 if S in finals else 0) for S in useful}
    block[DEAD] = 2
    while True:
        sig = {}
        for S in useful:
            sig[S] = (block[S],) + tuple(block[trans.get((S, a), DEAD)] if trans.get((S, a), DEAD) in useful
                                         else block[DEAD] for a in alphabet)
        sig[DEAD] = (block[DEAD],)
        ids = {}
        newblock = {}
        for S, sg in sig.items():
            newblock[S] = ids.setdefault(sg, len(ids))
        if len(ids) == len(set(block.values())):
            block = newblock
            break
        block = newblock
    # number blocks in BFS order
    num = {block[s0]: 0}
    order = [s0]
    t2 = {}
    i = 0
    while i < len(order):
        S = order[i]
        i += 1
        for a in alphabet:
            T = trans.get((S, a))
            if T is None or T not in useful:
                continue
            b = block[T]
            if b not in num:
                num[b] = len(num)
                order.append(T)
            t2[(num[block[S]], a)] = num[b]
    fin = {num[block[S]] for S in useful if S in finals and block[S] in num}
    return (len(num), 0, t2, fin)


def minimal_dfa_brzozowski(A, alphabet=None):
    """Formulation B of the minimal DFA: reverse-determinise twice; returned in
    the same canonical numbering."""
    alphabet = sorted(A.alphabet if alphabet is None else alphabet, key=repr)

    def det(N):
        s0, trans, finals, seen = N.dfa(alphabet)
        return NFA(seen, [s0], finals, [(S, a, T) for (S, a), T in trans.items()])
    D = det(det(A.reverse()).reverse())
    # D is the minimal complete-on-useful DFA possibly with useless states removed already
    return minimal_dfa(D, alphabet)


def all_words(alphabet, n):
    for k in range(n + 1):
        for w in product(alphabet, repeat=k):
            yield w
