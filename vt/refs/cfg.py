"""Reference semantics of context-free grammars (no pyformlang code).

Symbols are ("V", name) or ("T", name); a grammar is (start, productions) with
productions a collection of (head, body-tuple).  Words are tuples of terminal
names.
"""
from collections import deque


class Gram:
    def __init__(self, start, prods, variables=(), terminals=()):
        self.start = start
        self.prods = sorted(set((h, tuple(b)) for h, b in prods), key=repr)
        self.variables = set(variables) | {h for h, _ in self.prods} | \
            {s for _, b in self.prods for s in b if s[0] == "V"}
        if start is not None:
            self.variables.add(start)
        self.terminals = set(terminals) | {s for _, b in self.prods for s in b if s[0] == "T"}
        self.by_head = {}
        for h, b in self.prods:
            self.by_head.setdefault(h, []).append(b)

    # ---- formulation A: least fixpoint of bounded languages
    def langs_upto(self, L):
        lang = {X: set() for X in self.variables}
        changed = True
        while changed:
            changed = False
            for h, body in self.prods:
                cur = {()}
                for s in body:
                    if s[0] == "T":
                        cur = {w + (s[1],) for w in cur if len(w) < L}
                    else:
                        ls = lang[s]
                        cur = {w + u for w in cur for u in ls if len(w) + len(u) <= L}
                    if not cur:
                        break
                if cur and not cur <= lang[h]:
                    lang[h] |= cur
                    changed = True
        return lang

    def lang_upto(self, L):
        if self.start is None:
            return set()
        return self.langs_upto(L).get(self.start, set())

    # ---- formulation B: breadth-first leftmost derivation with pruning
    def lang_upto_b(self, L, max_forms=200000):
        if self.start is None:
            return set()
        minlen = self.min_lengths()
        if minlen.get(self.start) is None:
            return set()

        def bound(form):
            n = 0
            for s in form:
                if s[0] == "T":
                    n += 1
                else:
                    m = minlen.get(s)
                    if m is None:
                        return None
                    n += m
            return n
        out = set()
        seen = {(self.start,)}
        todo = deque([(self.start,)])
        nullable = self.nullable()
        while todo:
            form = todo.popleft()
            i = next((k for k, s in enumerate(form) if s[0] == "V"), None)
            if i is None:
                out.add(tuple(s[1] for s in form))
                continue
            for body in self.by_head.get(form[i], ()):
                new = form[:i] + body + form[i + 1:]
                b = bound(new)
                if b is None or b > L:
                    continue
                # forms can grow through nullable variables: cap their number
                if sum(1 for s in new if s[0] == "V") > 2 * L + 4:
                    continue
                if new not in seen:
                    seen.add(new)
                    if len(seen) > max_forms:
                        raise RuntimeError("formulation B exceeded its form budget")
                    todo.append(new)
        return out

    def min_lengths(self):
        """Length of a shortest terminal word per variable (None: non-generating)."""
        m = {}
        changed = True
        while changed:
            changed = False
            for h, body in self.prods:
                tot = 0
                for s in body:
                    if s[0] == "T":
                        tot += 1
                    elif s in m:
                        tot += m[s]
                    else:
                        tot = None
                        break
                if tot is not None and (h not in m or tot < m[h]):
                    m[h] = tot
                    changed = True
        return m

    # ---- symbol classes (textbook worklists)
    def generating(self):
        """Variables and terminals deriving some terminal word (terminals trivially)."""
        return set(self.min_lengths()) | set(self.terminals)

    def nullable(self):
        n = set()
        changed = True
        while changed:
            changed = False
            for h, body in self.prods:
                if h not in n and all(s in n for s in body):
                    n.add(h)
                    changed = True
        return n

    def reachable(self):
        if self.start is None:
            return set()
        r = {self.start}
        todo = [self.start]
        while todo:
            x = todo.pop()
            for body in self.by_head.get(x, ()):
                for s in body:
                    if s not in r:
                        r.add(s)
                        todo.append(s)
        return r

    def is_empty(self):
        return self.start is None or self.start not in self.min_lengths()

    def useful_variables(self):
        gen = set(self.min_lengths())
        if self.start is None or self.start not in gen:
            return set()
        # reachable through productions whose symbols are all generating
        r = {self.start}
        todo = [self.start]
        while todo:
            x = todo.pop()
            for body in self.by_head.get(x, ()):
                if all(s[0] == "T" or s in gen for s in body):
                    for s in body:
                        if s[0] == "V" and s not in r:
                            r.add(s)
                            todo.append(s)
        return r

    # ---- finiteness, formulation A: a cycle with a growing edge among useful variables
    def is_finite(self):
        useful = self.useful_variables()
        if not useful:
            return True
        minlen = self.min_lengths()
        nullable = self.nullable()
        edges = {}   # X -> {Y: growing?}
        for h, body in self.prods:
            if h not in useful or not all(s[0] == "T" or s in useful for s in body):
                continue
            for i, s in enumerate(body):
                if s[0] != "V":
                    continue
                rest = body[:i] + body[i + 1:]
                # rest derives a non-empty word iff some symbol can derive a non-empty word:
                # a terminal, or a useful variable with some non-empty word
                growing = any(r[0] == "T" or self._has_nonempty(r) for r in rest)
                d = edges.setdefault(h, {})
                d[s] = d.get(s, False) or growing
        # strongly connected components; infinite iff some SCC contains a growing edge (incl. self loops)
        idx, low, comp, stack, on = {}, {}, {}, [], set()
        counter = [0]

        def strong(v):
            work = [(v, iter(edges.get(v, {})))]
            idx[v] = low[v] = counter[0]
            counter[0] += 1
            stack.append(v)
            on.add(v)
            while work:
                x, it = work[-1]
                adv = False
                for y in it:
                    if y not in idx:
                        idx[y] = low[y] = counter[0]
                        counter[0] += 1
                        stack.append(y)
                        on.add(y)
                        work.append((y, iter(edges.get(y, {}))))
                        adv = True
                        break
                    elif y in on:
                        low[x] = min(low[x], idx[y])
                if adv:
                    continue
                work.pop()
                if work:
                    low[work[-1][0]] = min(low[work[-1][0]], low[x])
                if low[x] == idx[x]:
                    while True:
                        y = stack.pop()
                        on.discard(y)
                        comp[y] = x
                        if y == x:
                            break
        for v in useful:
            if v not in idx:
                strong(v)
        for x, d in edges.items():
            for y, growing in d.items():
                if growing and comp[x] == comp[y]:
                    return False
        return True

    def _has_nonempty(self, X):
        if not hasattr(self, "_nonempty"):
            # variables deriving at least one non-empty word
            ne = set()
            gen = set(self.min_lengths())
            changed = True
            while changed:
                changed = False
                for h, body in self.prods:
                    if h in ne or not all(s[0] == "T" or s in gen for s in body):
                        continue
                    if any(s[0] == "T" or s in ne for s in body):
                        ne.add(h)
                        changed = True
            self._nonempty = ne
        return X in self._nonempty

    # ---- finiteness, formulation B: derivable lengths up to 2p, infinite iff some length >= p
    def is_finite_b(self):
        useful = self.useful_variables()
        if not useful:
            return True
        maxbody = max((len(b) for _, b in self.prods), default=0)
        # pumping bound for the grammar after removing epsilon/unit rules is at most
        # maxbody ** (number of variables) ... use lengths up to a safe bound for tiny grammars
        nv = len(useful)
        p = max(2, maxbody) ** (nv + 1) + 1
        bound = 2 * p
        lens = {X: set() for X in self.variables}
        changed = True
        while changed:
            changed = False
            for h, body in self.prods:
                cur = {0}
                for s in body:
                    if s[0] == "T":
                        cur = {n + 1 for n in cur if n + 1 <= bound}
                    else:
                        cur = {n + m for n in cur for m in lens[s] if n + m <= bound}
                    if not cur:
                        break
                if cur and not cur <= lens[h]:
                    lens[h] |= cur
                    changed = True
        return not any(n >= p for n in lens[self.start])

    def word_lengths(self, bound):
        """set of lengths <= bound of the words generated from the start symbol"""
        lens = {X: set() for X in self.variables}
        changed = True
        while changed:
            changed = False
            for h, body in self.prods:
                cur = {0}
                for s in body:
                    if s[0] == "T":
                        cur = {n + 1 for n in cur if n + 1 <= bound}
                    else:
                        cur = {n + m for n in cur for m in lens[s] if n + m <= bound}
                    if not cur:
                        break
                if cur and not cur <= lens[h]:
                    lens[h] |= cur
                    changed = True
        return lens.get(self.start, set())

    def describe(self):
        def sy(s):
            return str(s[1]) if s[0] == "T" else "<%s>" % (s[1],)
        return {"start": None if self.start is None else sy(self.start),
                "productions": ["%s -> %s" % (sy(h), " ".join(sy(s) for s in b) or "eps") for h, b in self.prods]}


def from_case(case, vnames=None, tnames=None):
    from ..gen import cfg as G
    v, t, prods = case
    vn, tn = (vnames, tnames) if vnames is not None else G.names(case)

    def sym(i):
        return ("V", vn[i]) if i < v else ("T", tn[i - v])
    return Gram(sym(0), [(sym(h), tuple(sym(s) for s in body)) for h, body in prods],
                [sym(i) for i in range(v)], [sym(i) for i in range(v, v + t)])
