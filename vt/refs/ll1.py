"""Textbook FIRST / FOLLOW / PREDICT and the LL(1) verdict on a reference Gram
(no pyformlang code).  'eps' and '$' are the markers for the empty word and the
end of input."""
EPS, END = "<eps>", "<$>"


def first_sets(g):
    first = {X: set() for X in g.variables}
    changed = True
    while changed:
        changed = False
        for h, body in g.prods:
            f = first_of_seq(body, first)
            if not f <= first[h]:
                first[h] |= f
                changed = True
    return first


def first_of_seq(seq, first):
    out = set()
    for s in seq:
        if s[0] == "T":
            out.add(s[1])
            return out
        out |= first[s] - {EPS}
        if EPS not in first[s]:
            return out
    out.add(EPS)
    return out


def follow_sets(g, first=None):
    first = first or first_sets(g)
    follow = {X: set() for X in g.variables}
    follow[g.start].add(END)
    changed = True
    while changed:
        changed = False
        for h, body in g.prods:
            for i, s in enumerate(body):
                if s[0] != "V":
                    continue
                f = first_of_seq(body[i + 1:], first)
                add = f - {EPS}
                if EPS in f:
                    add |= follow[h]
                if not add <= follow[s]:
                    follow[s] |= add
                    changed = True
    return follow


def predict_sets(g):
    first = first_sets(g)
    follow = follow_sets(g, first)
    out = {}
    for h, body in g.prods:
        f = first_of_seq(body, first)
        p = f - {EPS}
        if EPS in f:
            p |= follow[h]
        out[(h, body)] = p
    return out


def is_ll1(g):
    pred = predict_sets(g)
    by_head = {}
    for (h, body), p in pred.items():
        by_head.setdefault(h, []).append(p)
    for ps in by_head.values():
        for i in range(len(ps)):
            for j in range(i + 1, len(ps)):
                if ps[i] & ps[j]:
                    return False
    return True


# ---- formulation B: brute force over bounded derivations ---------------------
def predict_sets_b(g, depth=6):
    """PREDICT(A -> alpha) = first terminal (or END) of any sentence derived from
    alpha . rest, where S =>* u A rest; by bounded search over sentential forms."""
    lang = g.langs_upto(depth)

    def firsts_of_form(form):
        # first terminal of words derived from a sentential form, END if it can derive the empty word
        out = set()
        prefix_empty = True
        for s in form:
            if s[0] == "T":
                out.add(s[1])
                prefix_empty = False
                break
            ws = lang[s]
            out |= {w[0] for w in ws if w}
            if () not in ws:
                prefix_empty = False
                break
        if prefix_empty:
            out.add(END)
        return out
    # contexts: all 'rest' after an occurrence of A in a sentential form reachable from S (bounded)
    contexts = {X: set() for X in g.variables}
    seen = {(g.start,)}
    todo = [(g.start,)]
    while todo:
        form = todo.pop()
        for i, s in enumerate(form):
            if s[0] == "V":
                contexts[s].add(form[i + 1:])
                for body in g.by_head.get(s, ()):
                    new = form[:i] + body + form[i + 1:]
                    if len(new) <= depth and new not in seen:
                        seen.add(new)
                        todo.append(new)
    out = {}
    for h, body in g.prods:
        p = set()
        for rest in contexts[h]:
            p |= firsts_of_form(body + rest)
        out[(h, body)] = p
    return out
