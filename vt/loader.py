"""Loads pyformlang from $VERIF_REPO (default /repo) *source*, as it is in the
working tree now, with every set-iteration point routed through
``__vt_ord__`` (vt/order.py).  No byte-code cache is read or written; the
installed copy of the package is never imported.
"""
import ast
import importlib.abc
import importlib.machinery
import importlib.util
import os
import sys

from . import order  # noqa: F401  (installs builtins.__vt_ord__)

REPO = os.environ.get("VERIF_REPO", "/repo")
GUARD = "PYFORMLANG_VERIF"

_WRAP_NAMES = {"list", "tuple", "sorted", "enumerate", "iter", "zip", "deque",
               "sum", "min", "max", "map", "filter", "next", "reversed",
               "any", "all", "dict"}
_WRAP_ATTRS = {"join", "extend", "product", "permutations", "combinations",
               "chain", "from_iterable", "fromkeys", "extendleft"}

STATS = {"modules": 0, "sites": 0}


def _wrap(node):
    if isinstance(node, ast.Call) and isinstance(node.func, ast.Name) \
            and node.func.id == "__vt_ord__":
        return node
    STATS["sites"] += 1
    new = ast.Call(func=ast.Name(id="__vt_ord__", ctx=ast.Load()),
                   args=[node], keywords=[])
    return ast.copy_location(new, node)


class _Rewriter(ast.NodeTransformer):
    def visit_For(self, node):
        self.generic_visit(node)
        node.iter = _wrap(node.iter)
        return node

    visit_AsyncFor = visit_For

    def visit_comprehension(self, node):
        self.generic_visit(node)
        node.iter = _wrap(node.iter)
        return node

    def visit_YieldFrom(self, node):
        self.generic_visit(node)
        node.value = _wrap(node.value)
        return node

    def visit_Starred(self, node):
        self.generic_visit(node)
        if isinstance(node.ctx, ast.Load):
            node.value = _wrap(node.value)
        return node

    def visit_AugAssign(self, node):
        self.generic_visit(node)
        if isinstance(node.op, ast.Add):
            node.value = _wrap(node.value)
        return node

    def visit_Assign(self, node):
        self.generic_visit(node)
        if any(isinstance(t, (ast.Tuple, ast.List)) for t in node.targets):
            node.value = _wrap(node.value)
        return node

    def visit_Call(self, node):
        self.generic_visit(node)
        f = node.func
        hit = (isinstance(f, ast.Name) and f.id in _WRAP_NAMES) or \
              (isinstance(f, ast.Attribute) and f.attr in _WRAP_ATTRS)
        if hit:
            node.args = [a if isinstance(a, ast.Starred) else _wrap(a)
                         for a in node.args]
        return node


def transform_source(data, path):
    tree = ast.parse(data, path)
    tree = _Rewriter().visit(tree)
    ast.fix_missing_locations(tree)
    STATS["modules"] += 1
    return compile(tree, path, "exec", dont_inherit=True)


class _Loader(importlib.machinery.SourceFileLoader):
    def get_code(self, fullname):
        path = self.get_filename(fullname)
        return transform_source(self.get_data(path), path)


class _Finder(importlib.abc.MetaPathFinder):
    def __init__(self, repo):
        self.repo = repo

    def find_spec(self, fullname, path=None, target=None):
        if fullname != "pyformlang" and not fullname.startswith("pyformlang."):
            return None
        parts = fullname.split(".")
        base = os.path.join(self.repo, *parts)
        init = os.path.join(base, "__init__.py")
        if os.path.isfile(init):
            return importlib.util.spec_from_file_location(
                fullname, init, loader=_Loader(fullname, init),
                submodule_search_locations=[base])
        mod = base + ".py"
        if os.path.isfile(mod):
            return importlib.util.spec_from_file_location(
                fullname, mod, loader=_Loader(fullname, mod))
        return None


_installed = False


def install(repo=None):
    """Idempotent.  Must be called before the first ``import pyformlang``."""
    global _installed, REPO
    if _installed:
        return
    if repo:
        REPO = repo
    for name in list(sys.modules):
        if name == "pyformlang" or name.startswith("pyformlang."):
            raise RuntimeError("pyformlang imported before vt.loader.install()")
    sys.dont_write_bytecode = True
    os.environ[GUARD] = "1"
    sys.meta_path.insert(0, _Finder(REPO))
    _installed = True


def load_all():
    """Import every public sub-package; returns the top-level package."""
    install()
    import pyformlang
    import pyformlang.finite_automaton
    import pyformlang.regular_expression
    import pyformlang.cfg
    import pyformlang.pda
    import pyformlang.fst
    import pyformlang.indexed_grammar
    import pyformlang.rsa
    import pyformlang.fcfg
    assert os.path.realpath(pyformlang.__file__).startswith(os.path.realpath(REPO)), pyformlang.__file__
    return pyformlang
