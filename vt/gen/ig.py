"""Enumerator of reduced-form indexed grammars IG(N, F, r): non-terminals S,A,B (0,1,2), indices f,g, one terminal a,
every set of <= r rules.  Case: (rules,) with rules a sorted tuple of rule tuples over indexes:
  (0, A, e, 0)   end rule  A -> a (e = 0) / A -> epsilon (e = 1)
  (1, A, B, f)   production A -> B[f]
  (2, f, A, B)   consumption A[f] -> B
  (3, A, B, C)   duplication A -> B C
"""
from itertools import combinations, permutations

NT = ["S", "A", "B", "C", "D", "E", "F"]
IX = ["f", "g"]


def candidates(n=3, k=2):
    out = [(0, A, e, 0) for A in range(n) for e in (0, 1)]      # e = 1: end rule A -> epsilon
    out += [(1, A, B, f) for A in range(n) for B in range(n) for f in range(k)]
    out += [(2, f, A, B) for f in range(k) for A in range(n) for B in range(n)]
    out += [(3, A, B, C) for A in range(n) for B in range(n) for C in range(n)]
    return out


def ig_cases(rmin, rmax, n=3, k=2):
    cand = candidates(n, k)
    for r in range(rmin, rmax + 1):
        for sub in combinations(cand, r):
            yield (sub,)


def _map(rule, np, fp):
    t = rule[0]
    if t == 0:
        return (0, np[rule[1]], rule[2], 0)
    if t == 1:
        return (1, np[rule[1]], np[rule[2]], fp[rule[3]])
    if t == 2:
        return (2, fp[rule[1]], np[rule[2]], np[rule[3]])
    return (3, np[rule[1]], np[rule[2]], np[rule[3]])


def is_rep(case, n=3, k=2):
    rules = tuple(case[0])
    for nperm in permutations(range(1, n)):
        np = (0,) + nperm
        for fp in permutations(range(k)):
            other = tuple(sorted(_map(r, np, fp) for r in rules))
            if other < rules:
                return False
    return True


def thaw(case):
    return (tuple(tuple(r) for r in case[0]),)


NT_SWAPPED = ["A", "S"] + NT[2:]      # the start variable is called A, another non-terminal is called S


NT_CLASH = ["S", "A", "epsilon"] + NT[3:]     # a non-terminal spelt like the epsilon marker
IX_CLASH = [1, "1"]                           # index symbols of different types with one spelling
TER_CLASH = "A"                               # the terminal is spelt like a non-terminal


def ref_rules(case, NT=NT, IX=IX, ter="a"):
    out = []
    for r in case[0]:
        if r[0] == 0:
            out.append(("end", NT[r[1]], "epsilon" if r[2] else ter))
        elif r[0] == 1:
            out.append(("prod", NT[r[1]], NT[r[2]], IX[r[3]]))
        elif r[0] == 2:
            out.append(("cons", IX[r[1]], NT[r[2]], NT[r[3]]))
        else:
            out.append(("dup", NT[r[1]], NT[r[2]], NT[r[3]]))
    return out


def dup_chain_cases():
    """4 non-terminals S,A,B,C: one end rule + three duplication rules (chains of duplication rules, listed in any
    order by the check); modulo renaming of A,B,C"""
    dups = [(3, x, y, z) for x in range(4) for y in range(4) for z in range(4)]
    for e in range(4):
        for sub in combinations(dups, 3):
            c = (tuple(sorted(((0, e, 0, 0),) + sub)),)
            if is_rep(c, 4, 2):
                yield c


def stack_chain_cases(kmax=5, extra_upto=3):
    """chain grammars N0 -> N1 -> ... -> Nk -> a where every step pushes or pops f or g (all 4^k step sequences,
    k <= kmax); for k <= extra_upto additionally one extra consumption rule Ni[x] -> Nj"""
    from itertools import product
    for k in range(1, kmax + 1):
        for steps in product(range(4), repeat=k):
            rules = []
            for i, st in enumerate(steps):
                if st < 2:
                    rules.append((1, i, i + 1, st))          # Ni -> Ni+1[f/g]
                else:
                    rules.append((2, st - 2, i, i + 1))      # Ni[f/g] -> Ni+1
            rules.append((0, k, 0, 0))
            yield (tuple(sorted(rules)),)
            if k <= extra_upto:
                for x in range(2):
                    for i in range(k + 1):
                        for j in range(k + 1):
                            extra = (2, x, i, j)
                            if extra not in rules:
                                yield (tuple(sorted(rules + [extra])),)


def marked_pair_cases():
    """S -> A[i]; A -> B C; any subset of three consumption rules for B and of three for C (two rules for one index and
    non-terminal, none for the other index, ...); D, E, F -> a.  The marked set of A has two members whose consumption
    rules for the pushed index are unbalanced."""
    S, A, B, C, D, E, F = range(7)
    ends = [(0, D, 0, 0), (0, E, 0, 0), (0, F, 0, 0)]
    forB = [(2, 0, B, D), (2, 0, B, E), (2, 1, B, D)]
    forC = [(2, 0, C, F), (2, 1, C, F), (2, 0, C, D)]
    for i in range(2):
        for mb in range(8):
            for mc in range(8):
                rules = [(1, S, A, i), (3, A, B, C)] + ends
                rules += [r for k, r in enumerate(forB) if mb >> k & 1]
                rules += [r for k, r in enumerate(forC) if mc >> k & 1]
                yield (tuple(sorted(rules)),)
