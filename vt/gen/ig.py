"""Enumerator of reduced-form indexed grammars IG(N, F, r): non-terminals S,A,B (0,1,2), indices f,g, one terminal a,
every set of <= r rules.  Case: (rules,) with rules a sorted tuple of rule tuples over indexes:
  (0, A, e, 0)   end rule  A -> a (e = 0) / A -> epsilon (e = 1)
  (1, A, B, f)   production A -> B[f]
  (2, f, A, B)   consumption A[f] -> B
  (3, A, B, C)   duplication A -> B C
"""
from itertools import combinations, permutations

NT = ["S", "A", "B"]
IX = ["f", "g"]


def candidates(n=3, k=2):
    out = [(0, A, e, 0) for A in range(n) for e in (0, 1)]      # e = 1: end rule A -> epsilon
    out += [(1, A, B, f) for A in range(n) for B in range(n) for f in range(k)]
    out += [(2, f, A, B) for f in range(k) for A in range(n) for B in range(n)]
    out += [(3, A, B, C) for A in range(n) for B in range(n) for C in range(n)]
    return out


def ig_cases(rmin, rmax, n=3, k=2):
    cand = candidates(n, k)
    for r in range(rmin, rmax + 1):
        for sub in combinations(cand, r):
            yield (sub,)


def _map(rule, np, fp):
    t = rule[0]
    if t == 0:
        return (0, np[rule[1]], rule[2], 0)
    if t == 1:
        return (1, np[rule[1]], np[rule[2]], fp[rule[3]])
    if t == 2:
        return (2, fp[rule[1]], np[rule[2]], np[rule[3]])
    return (3, np[rule[1]], np[rule[2]], np[rule[3]])


def is_rep(case, n=3, k=2):
    rules = tuple(case[0])
    for nperm in permutations(range(1, n)):
        np = (0,) + nperm
        for fp in permutations(range(k)):
            other = tuple(sorted(_map(r, np, fp) for r in rules))
            if other < rules:
                return False
    return True


def thaw(case):
    return (tuple(tuple(r) for r in case[0]),)


def ref_rules(case):
    out = []
    for r in case[0]:
        if r[0] == 0:
            out.append(("end", NT[r[1]], "epsilon" if r[2] else "a"))
        elif r[0] == 1:
            out.append(("prod", NT[r[1]], NT[r[2]], IX[r[3]]))
        elif r[0] == 2:
            out.append(("cons", IX[r[1]], NT[r[2]], NT[r[3]]))
        else:
            out.append(("dup", NT[r[1]], NT[r[2]], NT[r[3]]))
    return out
