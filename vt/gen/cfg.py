"""Enumerator of context-free grammars CFG(v, t, b, p): variables 0..v-1 (0 is the
start symbol), terminals v..v+t-1, every set of <= p productions with bodies of
length <= b.  A case is (v, t, prods) with prods a sorted tuple of
(head, body-tuple)."""
from itertools import combinations, permutations, product
from math import comb

VAR_NAMES = ["S", "A", "B", "C"]
TER_NAMES = ["a", "b", "c"]


def candidates(v, t, b, bmin=0):
    out = []
    for h in range(v):
        for l in range(bmin, b + 1):
            for body in product(range(v + t), repeat=l):
                out.append((h, body))
    return out


def cfg_cases(v, t, b, pmin, pmax, bmin=0):
    cand = candidates(v, t, b, bmin)
    for p in range(pmin, min(pmax, len(cand)) + 1):
        for sub in combinations(cand, p):
            yield (v, t, sub)


def cfg_count(v, t, b, pmin, pmax):
    m = v * sum((v + t) ** l for l in range(b + 1))
    return sum(comb(m, p) for p in range(pmin, min(pmax, m) + 1))


_PERMS = {}


def _perms(v, t):
    if (v, t) not in _PERMS:
        out = []
        for vp in permutations(range(1, v)):
            for tp in permutations(range(v, v + t)):
                out.append((0,) + vp + tp)
        _PERMS[(v, t)] = out
    return _PERMS[(v, t)]


def is_rep(case):
    v, t, prods = case
    me = tuple(prods)
    for m in _perms(v, t):
        other = tuple(sorted((m[h], tuple(m[s] for s in body)) for h, body in prods))
        if other < me:
            return False
    return True


def thaw(case):
    v, t, prods = case
    return (v, t, tuple((h, tuple(body)) for h, body in prods))


def names(case, scheme="plain"):
    """-> (variable names, terminal names) for the index universe of the case."""
    v, t, _ = case
    if scheme == "plain":
        return VAR_NAMES[:v], TER_NAMES[:t]
    if scheme == "cnf":       # names that look like the normal-form inventions
        return ["S", "a#CNF#", "C#CNF#1"][:v], TER_NAMES[:t]
    if scheme == "cnf2":      # two consecutively numbered binarisation variables already taken
        return ["S", "C#CNF#1", "C#CNF#2"][:v], TER_NAMES[:t]
    if scheme == "clash":     # a variable and a terminal with the same spelling
        return ["S", "a", "b"][:v], TER_NAMES[:t]
    if scheme == "subs":
        return ["S", "S#SUBS#0", "#STARTUNION#"][:v], ["#0UNION#", "#1CONC#", "c"][:t]
    if scheme == "subs2":     # the fresh name substitute invents for a start-less operand
        return ["#EMPTY", "#EMPTY#SUBS#0", "#EMPTY#SUBS#1"][:v], ["#0CONC#", "#1CONC#", "c"][:t]
    if scheme == "pda":
        return ["S", "#TERM#a", "#StartCFG#"][:v], TER_NAMES[:t]
    if scheme == "mixedval":  # variable values of different types with one spelling
        return [0, "0", 1][:v], TER_NAMES[:t]
    if scheme == "mixedter":  # terminal values of different types with one spelling
        return VAR_NAMES[:v], [0, "0", 1][:t]
    if scheme == "mixedpda":  # two terminals with one spelling + variables named like the stack symbols to_pda invents
        return ["S", "##TERM#0", "###TERM#0"][:v], [0, "0", 1][:t]
    if scheme == "epsspelt":  # terminals spelt like the text format's epsilon markers (legal terminal values)
        return VAR_NAMES[:v], ["$", "ε", "ϵ"][:t]
    if scheme == "mixedcnf":  # two terminals with one spelling + a variable named like the bumped #CNF# variable
        return ["S", "0#CNF##", "0#CNF#"][:v], [0, "0", 1][:t]
    if scheme == "dollar":    # a variable and a terminal spelt like the end marker of the LL(1) parser
        return ["S", "$", "#"][:v], ["a", "$", "b"][:t]
    if scheme == "lower":
        return ["s", "x", "y"][:v], ["A", "Bc", "d"][:t]
    raise ValueError(scheme)


def to_text(case, scheme="plain"):
    vn, tn = names(case, scheme)
    v, t, prods = case
    nm = list(vn) + list(tn)
    return "; ".join("%s -> %s" % (nm[h], " ".join(nm[s] for s in body) or "eps") for h, body in prods) or "<no productions>"


def long_triples():
    """one variable S, terminals a,b,c: every set of three productions S -> x y z (bodies of length exactly 3 over
    {S,a,b,c}); aimed at the binarisation (fresh variable numbering, suffix sharing between several long productions)"""
    bodies = list(product(range(4), repeat=3))
    for sub in combinations(bodies, 3):
        yield (1, 3, tuple((0, b) for b in sub))


def suffix_triples():
    """two long productions (lengths 3-4) where one body is a proper suffix of the other or they share a suffix of
    length >= 2, plus one short extra production (body <= 1) for one of the two variables"""
    cand = candidates(2, 2, 4, 3)
    short = candidates(2, 2, 1, 0)
    k = 0
    for i in range(len(cand)):
        for j in range(i + 1, len(cand)):
            (h1, b1), (h2, b2) = cand[i], cand[j]
            if b1[-2:] != b2[-2:]:
                continue
            if not (b2[-len(b1):] == b1 or b1[-len(b2):] == b2):
                continue        # whole-body suffix only (keeps the family small)
            for e in short:
                yield (2, 2, tuple(sorted([cand[i], cand[j], e])))


def long_body_cases():
    """three variables S,A,B, terminals a,b: one production S -> x y z (every body of length 3) plus at most two short
    productions (body <= 1) for A and B -- nullable symbols in the middle of a long body (FIRST/FOLLOW scans)"""
    short = [(h, body) for h in (1, 2) for body in ([()] + [(s,) for s in range(5)])]
    for body3 in product(range(5), repeat=3):
        for k in range(0, 3):
            for sub in combinations(short, k):
                yield (3, 2, tuple(sorted(((0, body3),) + sub)))


def shared_suffix4_cases():
    """S -> p1 p2 s1 s2 | q1 q2 s1 s2 | a : two bodies of length 4 with a common suffix of length 2 (prefixes over the
    terminals, suffix over {S, a, b}); aimed at the suffix sharing of the binarisation beyond the first chain step"""
    # symbols: 0 = S, 1 = a, 2 = b
    for p in product((1, 2), repeat=2):
        for q in product((1, 2), repeat=2):
            if q <= p:
                continue
            for suf in product((0, 1, 2), repeat=2):
                yield (1, 2, tuple(sorted({(0, p + suf), (0, q + suf), (0, (1,))})))
