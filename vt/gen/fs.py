"""Enumerator of consistently typed feature structures of depth <= 2: top-level features F, G (atomic) and H (complex,
with atomic features F, G); atoms p, q or unspecified; at most one re-entrancy (two leaf positions sharing one node).
Case: (leaves, share) with leaves a tuple of 4 entries for the positions (F, G, H.F, H.G): -1 absent, 0 unspecified,
1 = p, 2 = q; hflag: whether H is present when both H.F and H.G are absent; share: None or a pair of position
indexes (both present, same value)."""
from itertools import product, combinations

POS = [("F",), ("G",), ("H", "F"), ("H", "G")]
VAL = {0: None, 1: "p", 2: "q"}


def fs_cases(sharing=True):
    for leaves in product((-1, 0, 1, 2), repeat=4):
        for hflag in ((0, 1) if leaves[2] == -1 and leaves[3] == -1 else (1,)):
            yield (leaves, hflag, None)
            if sharing:
                present = [i for i in range(4) if leaves[i] >= 0]
                for i, j in combinations(present, 2):
                    if leaves[i] == leaves[j]:
                        yield (leaves, hflag, (i, j))


def spec(case):
    leaves, hflag, share = case
    def atom(i):
        tag = "s" if share is not None and i in share else None
        return ("atom", VAL[leaves[i]], tag)
    top = {}
    if leaves[0] >= 0:
        top["F"] = atom(0)
    if leaves[1] >= 0:
        top["G"] = atom(1)
    sub = {}
    if leaves[2] >= 0:
        sub["F"] = atom(2)
    if leaves[3] >= 0:
        sub["G"] = atom(3)
    if sub or hflag and (leaves[2] >= 0 or leaves[3] >= 0 or hflag):
        if sub or (hflag and leaves[2] == -1 and leaves[3] == -1 and hflag == 1 and False):
            top["H"] = ("node", sub)
    if not sub and hflag == 1 and leaves[2] == -1 and leaves[3] == -1:
        top["H"] = ("node", {})
    return ("node", top)


def thaw(case):
    leaves, hflag, share = case
    return (tuple(leaves), hflag, None if share is None else tuple(share))
