"""Enumerators of regex texts for C05.

RE-tok(L): every string of <= L tokens over TOKENS, concatenated directly (the blank is a token).
RE-ast(s): every AST with exactly s nodes over LEAVES / star / cat / alt, with renderings.
"""
from itertools import product

TOKENS = ["a", "b", "ab", " ", ".", "|", "+", "*", "(", ")", "epsilon", "$", "\\|", "\\*", "\\(", "\\$", "\\ "]


def tok_texts(lmin, lmax):
    for l in range(lmin, lmax + 1):
        for toks in product(range(len(TOKENS)), repeat=l):
            yield ("tok", toks)


def tok_text(case):
    return "".join(TOKENS[i] for i in case[1])


LEAVES = [("sym", "a"), ("sym", "b"), ("eps",), ("sym", "|"), ("sym", "$"), ("sym", " ")]
_AST = {}


def deep_star_asts():
    """star over a concatenation of composite factors (sizes 4-9, beyond the complete layers): (X Y)*, a (X Y)*,
    (X Y)* | b for X, Y among a symbol, a union, a star, a union with epsilon, a concatenation"""
    a, b = ("sym", "a"), ("sym", "b")
    parts = [a, ("alt", a, b), ("star", a), ("alt", b, ("eps",)), ("cat", a, b)]
    out = []
    for x in parts:
        for y in parts:
            st = ("star", ("cat", x, y))
            out += [st, ("cat", a, st), ("alt", st, b)]
    return out


def asts(s):
    """All ASTs with exactly s nodes ("deep": the deep_star_asts family)."""
    if s in _AST:
        return _AST[s]
    if s == "deep":
        _AST[s] = deep_star_asts()
        return _AST[s]
    if s == 1:
        out = list(LEAVES)
    else:
        out = [("star", x) for x in asts(s - 1)]
        for l in range(1, s - 1):
            for x in asts(l):
                for y in asts(s - 1 - l):
                    out.append(("cat", x, y))
                    out.append(("alt", x, y))
    _AST[s] = out
    return out


RENDERINGS = [(c, a, False) for c in (" ", ".", " . ") for a in ("|", "+", " | ")] + \
             [(" ", "|", True), (".", "+", True), (" . ", " | ", True)]


def render(ast, cat=" ", alt="|", redundant=False, eps="$"):
    """Text of the AST: minimal parentheses by the documented precedences (star > concatenation > union),
    or redundant parentheses around every sub-term."""
    def go(t, ctx):
        # ctx: 0 top/union operand, 1 concatenation operand, 2 star operand
        k = t[0]
        if k == "sym":
            s = "\\" + t[1] if t[1] in "|*(.+)$ " else t[1]
            return "(" + s + ")" if redundant else s
        if k == "eps":
            return "(" + eps + ")" if redundant else eps
        if k == "star":
            inner = go(t[1], 2)
            s = inner + "*"
            return "(" + s + ")" if redundant else s
        if k == "cat":
            s = go(t[1], 1) + cat + go(t[2], 1)
            return "(" + s + ")" if (redundant or ctx == 2) else s
        if k == "alt":
            s = go(t[1], 0) + alt + go(t[2], 0)
            return "(" + s + ")" if (redundant or ctx >= 1) else s
        raise ValueError(t)
    return go(ast, 0)


def ast_cases(smin, smax):
    for s in range(smin, smax + 1):
        for i in range(len(asts(s))):
            yield ("ast", s, i)


def pair_cases(smax):
    pool = [(s, i) for s in range(1, smax + 1) for i in range(len(asts(s)))]
    for x in pool:
        for y in pool:
            yield ("pair", x[0], x[1], y[0], y[1])
