"""Enumerator of transducers FST(q, t): states 0..q-1, input symbols a,b (1,2) and epsilon (0), outputs from
OUTS, every set of <= t transitions, every start set and final set.  Case: (q, trans, starts_mask, finals_mask)
with trans a sorted tuple of (p, a, r, out_index)."""
from itertools import combinations, permutations

OUTS = [(), ("x",), ("y",), ("x", "y")]
OUTS_XX = [(), ("x",), ("xx",), ("x", "xx")]      # output symbols whose concatenations coincide as strings


def outs(scheme):
    scheme = scheme.replace("+tuple", "")
    return OUTS_XX if scheme.endswith("+xx") else OUTS
IN = {0: None, 1: "a", 2: "b"}


def candidates(q, nin=2):
    return [(p, a, r, o) for p in range(q) for a in range(nin + 1) for r in range(q) for o in range(len(OUTS))]


def fst_cases(q, tmin, tmax, nin=2):
    cand = candidates(q, nin)
    for t in range(tmin, tmax + 1):
        for sub in combinations(cand, t):
            for st in range(1 << q):
                for fi in range(1 << q):
                    yield (q, sub, st, fi)


def _mp(mask, sp, n):
    out = 0
    for i in range(n):
        if mask >> i & 1:
            out |= 1 << sp[i]
    return out


def is_rep(case):
    q, trans, st, fi = case
    me = (tuple(trans), st, fi)
    for sp in permutations(range(q)):
        other = (tuple(sorted((sp[p], a, sp[r], o) for p, a, r, o in trans)), _mp(st, sp, q), _mp(fi, sp, q))
        if other < me:
            return False
    return True


def thaw(case):
    q, trans, st, fi = case
    return (q, tuple(tuple(t) for t in trans), st, fi)


def names(scheme, q):
    scheme = scheme.replace("+tuple", "").replace("+xx", "")
    if scheme == "hub":        # names the library itself invents for the state added by kleene_star
        return ["star", "star0", "q"][:q]
    if scheme == "str":
        return ["q%d" % i for i in range(q)]
    if scheme == "int":
        return list(range(q))
    if scheme == "mixedval":   # values of different types with one spelling
        return [0, "0", 1][:q]
    if scheme == "pre":        # one name is another name plus a digit (the renaming of shared names appends digits)
        return ["q", "q0", "q00"][:q]
    raise ValueError(scheme)
