"""Enumerator of pushdown automata PDA(q, g, k, t): states 0..q-1 (0 is the start state), input symbols 1,2 (a,b) and
0 = epsilon, stack symbols 0..g-1 (0 = Z is the start stack symbol), pushes of <= k symbols, every set of <= t
transitions, every set of final states.  A case is (q, g, trans, finals_mask) with trans a sorted tuple of
(p, a, X, r, gamma)."""
from itertools import combinations, product

IN = {0: None, 1: "a", 2: "b"}


def candidates(q, g, k, nin=2):
    out = []
    for p in range(q):
        for a in range(nin + 1):
            for X in range(g):
                for r in range(q):
                    for l in range(k + 1):
                        for gamma in product(range(g), repeat=l):
                            out.append((p, a, X, r, gamma))
    return out


def pda_cases(q, g, k, tmin, tmax, nin=2):
    cand = candidates(q, g, k, nin)
    for t in range(tmin, tmax + 1):
        for sub in combinations(cand, t):
            for fi in range(1 << q):
                yield (q, g, sub, fi)


def same_long_push_cases():
    """one state, stack {Z,X}: two different transitions that push the same word of length 3, plus one transition
    with a push of <= 1 symbol (so that something can be popped); any final set"""
    heads = [(a, X) for a in range(3) for X in range(2)]
    small = [t for t in candidates(1, 2, 1)]
    for gamma in product(range(2), repeat=3):
        for h1, h2 in combinations(heads, 2):
            for extra in small:
                trans = tuple(sorted({(0, h1[0], h1[1], 0, gamma), (0, h2[0], h2[1], 0, gamma), extra}))
                if len(trans) == 3:
                    for fi in range(2):
                        yield (1, 2, trans, fi)


def is_rep(case):
    """minimal under swapping the two input letters"""
    q, g, trans, fi = case
    sw = {0: 0, 1: 2, 2: 1}
    other = tuple(sorted((p, sw[a], X, r, gamma) for p, a, X, r, gamma in trans))
    return tuple(trans) <= other


def thaw(case):
    q, g, trans, fi = case
    return (q, g, tuple((p, a, X, r, tuple(gamma)) for p, a, X, r, gamma in trans), fi)


def names(scheme, q, g):
    """-> (state names, stack names)"""
    if scheme == "plain":
        return ["q%d" % i for i in range(q)], ["Z", "X", "Y"][:g]
    if scheme == "int":
        return list(range(q)), list(range(g))
    if scheme == "mixedval":   # values of different types with one spelling
        return [0, "0", 1][:q], [0, "0", 1][:g]
    if scheme == "reserved":   # the library's own fresh names
        return ["#STARTTOFINAL#", "#ENDEMPTYS#", "q"][:q], ["#BOTTOMTOFINAL#", "#BOTTOMEMPTYS#", "#BOTTOMEMPTYS#0"][:g]
    if scheme == "reserved2":
        return ["#ENDTOFINAL#", "#STARTEMPTYS#", "q"][:q], ["#BOTTOMEMPTYS#", "#BOTTOMTOFINAL#", "Z"][:g]
    raise ValueError(scheme)


def describe(case, scheme="plain"):
    q, g, trans, fi = case
    sn, kn = names(scheme, q, g)
    return {"start": sn[0], "start_stack": kn[0], "finals": [sn[i] for i in range(q) if fi >> i & 1],
            "transitions": ["%s, %s, %s -> %s, %s" % (sn[p], IN[a] or "eps", kn[X], sn[r], [kn[y] for y in gamma])
                            for p, a, X, r, gamma in trans]}
