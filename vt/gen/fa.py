"""Enumerator of finite automata  FA(n, k, t): states 0..n-1, symbols 1..k plus
0 = epsilon, every set of <= t transitions, every start set, every final set.

A case is the tuple (n, k, trans, starts_mask, finals_mask) with trans a sorted
tuple of (p, sym, q).  Layers are complete; sizes are closed-form checked in
the selftest.
"""
from itertools import combinations, permutations
from math import comb


def triples(n, k, eps=True):
    return [(p, s, q) for p in range(n) for s in range(0 if eps else 1, k + 1) for q in range(n)]


def fa_cases(n, k, tmin, tmax, eps=True, single_start=False, starts_nonempty=False):
    tr = triples(n, k, eps)
    for t in range(tmin, min(tmax, len(tr)) + 1):
        for sub in combinations(tr, t):
            for st in range(1 << n):
                if single_start and bin(st).count("1") != 1:
                    continue
                if starts_nonempty and st == 0:
                    continue
                for fi in range(1 << n):
                    yield (n, k, sub, st, fi)


def fa_count(n, k, tmin, tmax, eps=True):
    m = n * n * (k + (1 if eps else 0))
    return sum(comb(m, t) for t in range(tmin, min(tmax, m) + 1)) * (1 << n) * (1 << n)


_PERMS = {}


def _perms(n, k):
    key = (n, k)
    if key not in _PERMS:
        _PERMS[key] = [(sp, (0,) + ap) for sp in permutations(range(n))
                       for ap in permutations(range(1, k + 1))]
    return _PERMS[key]


def _mask_perm(mask, sp, n):
    out = 0
    for i in range(n):
        if mask >> i & 1:
            out |= 1 << sp[i]
    return out


def is_rep(case, sym_perm=True):
    """True iff the case is the minimum of its isomorphism class (renaming of
    states, and of non-epsilon symbols)."""
    n, k, trans, st, fi = case
    me = (tuple(trans), st, fi)
    for sp, ap in _perms(n, k):
        if not sym_perm and ap != tuple(range(k + 1)):
            continue
        t2 = tuple(sorted((sp[p], ap[s], sp[q]) for p, s, q in trans))
        other = (t2, _mask_perm(st, sp, n), _mask_perm(fi, sp, n))
        if other < me:
            return False
    return True


def is_rep_states(case):
    return is_rep(case, sym_perm=False)


def thaw(case):
    n, k, trans, st, fi = case
    return (n, k, tuple(tuple(t) for t in trans), st, fi)


# naming schemes -------------------------------------------------------------
SYMS = {1: "a", 2: "b", 3: "c"}


def names(scheme, n):
    if scheme == "int":
        return list(range(n))
    if scheme == "str":
        return ["q%d" % i for i in range(n)]
    if scheme == "mixed":
        return [1, "1", (0, 1), "x"][:n]
    if scheme == "merged":      # names that look like the library's own merged-state names
        return ["0;1", "0", "1", "0; 1"][:n]
    if scheme == "reserved":
        return ["TRASH", "TrashNode", "Empty", "Start"][:n]
    if scheme == "quoted":      # two values with one spelling plus names that look like the disambiguated merged names
        return [1, "1", "1'", "1''"][:n]
    if scheme == "pairA":       # with pairB: two different pairs of states whose "p; q" spellings coincide
        return ["p", "p; q", "z", "y"][:n]
    if scheme == "pairB":
        return ["q; r", "r", "z", "y"][:n]
    if scheme == "reserved2":
        return ["Start", "TrashNode", "Empty", "TRASH"][:n]
    raise ValueError(scheme)


def trim4_cases(t=5, stride=1):
    """FA on 4 states with exactly t transitions, start state 0, final state 3, every state on a path from 0 to 3
    (trim) -- large enough for elimination-order effects (cycles through two eliminated states, parallel edges)."""
    tr = triples(4, 2, True)
    k = 0
    for sub in combinations(tr, t):
        succ = {}
        pred = {}
        for p, s, q in sub:
            succ.setdefault(p, set()).add(q)
            pred.setdefault(q, set()).add(p)
        fw, todo = {0}, [0]
        while todo:
            x = todo.pop()
            for y in succ.get(x, ()):
                if y not in fw:
                    fw.add(y)
                    todo.append(y)
        if len(fw) < 4:
            continue
        bw, todo = {3}, [3]
        while todo:
            x = todo.pop()
            for y in pred.get(x, ()):
                if y not in bw:
                    bw.add(y)
                    todo.append(y)
        if len(bw) < 4:
            continue
        k += 1
        if k % stride == 0:
            yield (4, 2, sub, 1, 8)
