"""Enumerator of Python regex patterns from the documented subset of PythonRegex (C07).

A pattern is described by a small AST so that known-finding scope predicates can be stated on its structure:
  ("atom", text) | ("q", node, quant) | ("cat", x, y) | ("alt", x, y) | ("grp", x)
"""
ATOMS_FULL = ["a", "b", "0", "-", " ", "_",
              "\\.", "\\*", "\\+", "\\(", "\\)", "\\|", "\\?", "\\[", "\\]", "\\\\",
              ".", "\\d", "\\s", "\\w",
              "[ab]", "[^a]", "[a-c]", "[a\\-c]", "[+*]", "[\\d_]", "[^a-c0]", "[.]", "[(|)]", "[a-]", "[\\]a]",
              "[^\\d]", "[^\\-a]", "[^\\]]", "[\\^a]", "[^\\w]", "[^b^]", "[a^]",
              "[\\d.]", "[\\w+]", "[.\\d]", "\\\\d", "[\\s ]", "[\\\\d]", "[^^a]", "[^a^]",
              "[-a]", "[^-a]", "[^-a-c]", "[^a-]", "[^\\s]", "[^\\n]", "[\\n]",
              "[[]", "[[a]", "[a[]", "[^[]", "[]a]", "[]]", "[^]a]", "[\\[a]", "[^\\t]",
              "[\\|]", "[^\\|]", "[\\|a]", "[a|b]", "[^]]", "[^]-a]", "]"]
ATOMS_SMALL = ["a", ".", "[ab]", "\\d", "\\+", "[^a]"]
QUANTS = ["", "*", "+", "?", "{0}", "{1}", "{2}", "{0,1}", "{1,2}", "{2,2}", "{0,0}", "{1,1}", "{2,3}"]
QUANTS_SMALL = ["", "*", "+", "?", "{2}", "{1,2}", "{0,1}"]
INVALID = ["(a", "a)", "*a", "a**", "[a", "[c-a]", "a{2,1}", "+", "?a", "(?", "a\\", "a|*", "()+*", "(a))", "[]", "a{1}{2}x**"]


def text(node):
    k = node[0]
    if k == "atom":
        return node[1]
    if k == "q":
        inner = node[1]
        t = text(inner)
        if inner[0] in ("cat", "alt"):
            t = "(" + t + ")"
        return t + node[2]
    if k == "cat":
        parts = []
        for x in node[1:]:
            t = text(x)
            if x[0] == "alt":
                t = "(" + t + ")"
            parts.append(t)
        return "".join(parts)
    if k == "alt":
        return text(node[1]) + "|" + text(node[2])
    if k == "grp":
        return "(" + text(node[1]) + ")"
    raise ValueError(node)


def level1():
    for a in ATOMS_FULL:
        for q in QUANTS:
            yield ("q", ("atom", a), q) if q else ("atom", a)


def small1():
    for a in ATOMS_SMALL:
        for q in QUANTS_SMALL:
            yield ("q", ("atom", a), q) if q else ("atom", a)


def level2(natoms=6, nquants=7):
    s = [("q", ("atom", a), q) if q else ("atom", a) for a in ATOMS_SMALL[:natoms] for q in QUANTS_SMALL[:nquants]]
    for x in s:
        for y in s:
            yield ("cat", x, y)
            yield ("alt", x, y)


def level2_groups(natoms=6):
    """quantified groups of a binary combination of plain small atoms, and nested groups"""
    atoms = [("atom", a) for a in ATOMS_SMALL[:natoms]]
    for x in atoms:
        for y in atoms:
            for op in ("cat", "alt"):
                for q in QUANTS:
                    if q:
                        yield ("q", (op, x, y), q)
        for q1 in QUANTS_SMALL:
            for q2 in QUANTS_SMALL:
                if q1 and q2:
                    yield ("q", ("grp", ("q", x, q1)), q2)


def nested_groups():
    """redundant nesting of groups: ((x)), (((x))), ((x|y)), z(((x)))q"""
    atoms = [("atom", a) for a in ATOMS_SMALL]
    for x in atoms:
        for depth in (2, 3, 4):
            n = x
            for _ in range(depth):
                n = ("grp", n)
            for q in ("", "*", "+", "?", "{2}", "{0,1}"):
                yield ("q", n, q) if q else n
                yield ("cat", ("atom", "b"), ("q", n, q) if q else n)
        for y in atoms[:3]:
            for depth in (2, 3):
                n = ("alt", x, y)
                for _ in range(depth):
                    n = ("grp", n)
                yield n
                yield ("q", n, "+")
                yield ("cat", n, ("atom", "0"))


def stray_then_set():
    """a literal ] outside any set (or an escaped one, or a complete set) followed by each set atom: the bookkeeping
    of bracket depth must not leak from one part of the pattern into the next"""
    for head in ("]", "a]", "\\]", "[a]]", "[a]", "a\\["):
        for x in SET_ATOMS:
            yield ("cat", ("atom", head), ("atom", x))
            yield ("cat", ("atom", head), ("q", ("atom", x), "+"))


def level3():
    """depth 3 (pruned): (X q1 Y) q2 Z and X|(Y Z)q with small atoms and small quantifiers"""
    atoms = [("atom", a) for a in ATOMS_SMALL[:4]]
    qs = QUANTS_SMALL[1:]
    for x in atoms:
        for y in atoms:
            for z in atoms:
                for q1 in qs:
                    for q2 in qs:
                        yield ("cat", ("q", ("cat", ("q", x, q1), y), q2), z)
                        yield ("alt", x, ("q", ("cat", y, ("q", z, q1)), q2))
                        yield ("cat", ("q", ("alt", x, y), q1), ("q", ("grp", z), q2))


def has_zero_min(node):
    """pattern AST contains a repetition {0}, {0,n}"""
    if node[0] == "q" and node[2].startswith("{0"):
        return True
    return any(isinstance(x, tuple) and has_zero_min(x) for x in node[1:])


ALPHA12 = ["a", "b", "c", "0", "-", " ", "+", ".", "(", ")", "|", "\\", "_", "^", "]", "\n", "[", "n", "t"]
ALPHA4 = ["a", "b", "0", "-"]


def strings():
    out = [""]
    out += list(ALPHA12)
    out += [x + y for x in ALPHA12 for y in ALPHA12]
    for n in (3, 4):
        def rec(prefix, k):
            if k == 0:
                out.append(prefix)
                return
            for c in ALPHA4:
                rec(prefix + c, k - 1)
        rec("", n)
    return out


SET_ATOMS = [a for a in ATOMS_FULL if a.startswith("[")]


def set_pairs():
    """ordered pairs of set atoms: both patterns are built one after the other in the same process (module-level
    state shared between PythonRegex objects must not matter)"""
    for x in SET_ATOMS:
        for y in SET_ATOMS:
            if x != y:
                yield ("seq", (x, y))
