"""Explorer: bounded exhaustive exploration of the real library against the
reference models (DESIGN.md 2.4).  One engine for all properties.

A property module provides a subclass of ``Prop``.  The engine enumerates every
layer completely, shards the cases over a fork pool, and for every canonical
case and every order policy drives the library (``Prop.check``) under a
watchdog and collects named clause failures.
"""
import hashlib
import itertools
import json
import multiprocessing
import os
import signal
import sys
import time
import traceback

from . import order

VERIF = os.path.dirname(os.path.dirname(os.path.abspath(__file__)))
NPROC = int(os.environ.get("VERIF_NPROC", "16"))


class Watchdog(BaseException):
    """Raised inside a library call that exceeded its horizon (BaseException so
    that no ``except Exception`` in the library can swallow it)."""


def _on_alarm(signum, frame):
    raise Watchdog()


class Res:
    __slots__ = ("kind", "value", "exc")

    def __init__(self, kind, value=None, exc=None):
        self.kind, self.value, self.exc = kind, value, exc

    @property
    def ok(self):
        return self.kind == "ok"

    def describe(self):
        if self.kind == "ok":
            return "ok:" + _short(self.value)
        if self.kind == "timeout":
            return "timeout"
        return "exc:%s:%s" % (type(self.exc).__name__, _short(str(self.exc)))


def _short(x, n=300):
    s = x if isinstance(x, str) else repr(x)
    return s if len(s) <= n else s[:n] + "..."


class Ctx:
    """Per (case, policy) execution context handed to Prop.check."""

    def __init__(self, horizon):
        self.ops = 0
        self.fails = []
        self.horizon = horizon
        self.notes = {}
        self.variant = ""

    def call(self, fn, *a, **k):
        """One library operation under the watchdog."""
        self.ops += 1
        signal.setitimer(signal.ITIMER_REAL, self.horizon)
        try:
            v = fn(*a, **k)
            signal.setitimer(signal.ITIMER_REAL, 0)
            return Res("ok", v)
        except Watchdog:
            return Res("timeout")
        except RecursionError as e:
            signal.setitimer(signal.ITIMER_REAL, 0)
            return Res("exc", exc=e)
        except Exception as e:  # noqa
            signal.setitimer(signal.ITIMER_REAL, 0)
            return Res("exc", exc=e)
        finally:
            signal.setitimer(signal.ITIMER_REAL, 0)

    def collect(self, fn, *a, limit=None, **k):
        """Library generator consumed under one watchdog, cut after ``limit``
        items (result kind 'ok' with a list; the list has limit+1 items when
        the generator wanted to go on)."""
        def run():
            out = []
            for x in fn(*a, **k):
                out.append(x)
                if limit is not None and len(out) > limit:
                    break
            return out
        return self.call(run)

    def batch_equal(self, clause, fn, items, want_fn, stop_at_first=True, **detail):
        """fn(item) must return want_fn(item) for every item.  All calls run under one watchdog; only when
        something is off they are re-run one by one to name the offending item (first failure reported)."""
        items = list(items)
        b = self.call(lambda: [fn(i) for i in items])
        self.ops += max(0, len(items) - 1)
        if b.ok and all(g is want_fn(i) or g == want_fn(i) for g, i in zip(b.value, items)):
            return True
        for i in items:
            r = self.call(fn, i)
            if not self.returns(r, clause, item=i, **detail):
                if stop_at_first:
                    return False
                continue
            w = want_fn(i)
            if not (r.value is w or r.value == w):
                self.fail(clause, item=i, got=r.value, want=w, **detail)
                if stop_at_first:
                    return False
        return False

    def fail(self, clause, **detail):
        self.fails.append((clause, {k: _short(v, 600) if not isinstance(v, (int, bool, float, list, dict, type(None))) else v
                                    for k, v in detail.items()}))

    def expect(self, cond, clause, **detail):
        if not cond:
            self.fail(clause, **detail)
        return cond

    def returns(self, res, clause, allowed=(), **detail):
        """The call must return (no timeout, no foreign exception).  Exceptions
        whose type is in ``allowed`` are reported as not-ok without failing."""
        if res.ok:
            return True
        if res.kind == "timeout":
            self.fail(clause + ".terminates", got="no result within %ss" % self.horizon, **detail)
        elif not isinstance(res.exc, tuple(allowed)):
            self.fail(clause + ".no_foreign_exception", got=res.describe(), **detail)
        return False


class Layer:
    def __init__(self, name, gen, policies=None, rep=None, note=""):
        self.name = name          # str
        self.gen = gen            # () -> iterator of cases (picklable, JSON-able)
        self.policies = policies  # list of policies or None (= prop default)
        self.rep = rep            # case -> bool : is canonical representative
        self.note = note


class Prop:
    ID = "C00"
    HORIZON = 20.0
    CHUNK = 200

    def layers(self, tier, seed):
        raise NotImplementedError

    def default_policies(self, tier, seed):
        if tier == "quick":
            return ["natural", "1", "2", "3", "s%d" % (seed % 1000003)]
        return ["natural"] + [str(i) for i in range(1, 9)] + ["s%d" % ((seed * 7 + k) % 1000003) for k in range(4)]

    def reference(self, case):
        return None

    def check(self, case, ref, ctx):
        raise NotImplementedError

    def outcome(self, case, ref):
        return repr(ref)

    def nontrivial(self, case, ref):
        return True

    def describe(self, case):
        return case

    # known-finding scope predicates: name -> fn(case) -> bool
    SCOPES = {}


def case_hash(case):
    return hashlib.blake2b(json.dumps(case, sort_keys=True, default=str).encode(), digest_size=8).hexdigest()


# ---------------------------------------------------------------- worker side

_PROP = None
_LAYERS = None


def _work(task):
    li, chunk, policies = task
    prop, layer = _PROP, _LAYERS[li]
    st = {"layer": li, "generated": len(chunk), "dups": 0, "states": 0, "execs": 0, "ops": 0,
          "outcomes": set(), "nontrivial": 0, "fails": [], "samples": [], "skipped": 0,
          "harness_errors": [], "notes": {}}
    for case in chunk:
        try:
            if layer.rep is not None and not layer.rep(case):
                st["dups"] += 1
                continue
            order.set_policy(None)
            ref = prop.reference(case)
            if ref is SKIP:
                st["skipped"] += 1
                continue
            st["states"] += 1
            st["outcomes"].add(hashlib.blake2b(repr(prop.outcome(case, ref)).encode(), digest_size=6).digest())
            if prop.nontrivial(case, ref):
                st["nontrivial"] += 1
            if len(st["samples"]) < 2:
                st["samples"].append(prop.describe(case))
            per_clause = {}
            for pol in policies:
                salt, _, variant = pol.partition("@")
                order.set_policy(salt)
                ctx = Ctx(prop.HORIZON)
                ctx.variant = variant
                try:
                    prop.check(case, ref, ctx)
                finally:
                    order.set_policy(None)
                st["execs"] += 1
                st["ops"] += ctx.ops
                for nk, nv in ctx.notes.items():
                    st["notes"][nk] = st["notes"].get(nk, 0) + nv
                for clause, detail in ctx.fails:
                    gk = (clause, detail.get("_key"))      # one record per clause (and per _key when given)
                    if gk not in per_clause:
                        per_clause[gk] = {"clause": clause, "case": case, "layer": layer.name,
                                          "policies": [pol], "detail": detail}
                    elif pol not in per_clause[gk]["policies"]:
                        per_clause[gk]["policies"].append(pol)
            st["fails"].extend(per_clause.values())
        except Watchdog:
            st["harness_errors"].append({"case": case, "error": "stray watchdog"})
        except Exception:  # harness bug: never a VIOLATION
            st["harness_errors"].append({"case": case, "error": traceback.format_exc()[-1500:]})
    return st


class _Skip:
    def __repr__(self):
        return "SKIP"


SKIP = _Skip()


def _chunks(it, n):
    """Small chunks first (so that small layers spread over all workers), growing to n."""
    it = iter(it)
    size, k = 4, 0
    while True:
        c = list(itertools.islice(it, min(size, n)))
        if not c:
            return
        yield c
        k += 1
        if k % (NPROC * 2) == 0 and size < n:
            size *= 2


MAX_TIMEOUTS = 48


def explore(prop, tier, seed, only_policies=None, only_layers=None, budget_s=None):
    """Returns the result dict for one run of one property."""
    global _PROP, _LAYERS
    t0 = time.time()
    layers = prop.layers(tier, seed)
    if only_layers:
        layers = [l for l in layers if l.name in only_layers]
    _PROP, _LAYERS = prop, layers
    signal.signal(signal.SIGALRM, _on_alarm)
    default_pol = prop.default_policies(tier, seed)

    import threading
    sem = threading.Semaphore(NPROC * 6)
    stop = []

    def tasks():
        for li, layer in enumerate(layers):
            pols = layer.policies if layer.policies is not None else default_pol
            if only_policies:
                # exact policy names, or order names (the part before '@') such as "natural"
                pols = [p for p in pols if p in only_policies or p.partition("@")[0] in only_policies]
                if not pols:
                    continue
            for chunk in _chunks(layer.gen(), prop.CHUNK):
                sem.acquire()
                if stop:
                    return
                yield (li, chunk, pols)

    agg = [{"name": l.name, "note": l.note, "generated": 0, "dups": 0, "states": 0, "execs": 0, "ops": 0,
            "skipped": 0, "nontrivial": 0, "complete": False,
            "policies": (l.policies if l.policies is not None else default_pol)} for l in layers]
    outcomes, fails, samples, herr = set(), [], [], []
    notes = {}
    capped = False
    n_timeouts = 0
    ctx = multiprocessing.get_context("fork")
    if NPROC > 1:
        pool = ctx.Pool(NPROC)
        results = pool.imap_unordered(_work, tasks(), chunksize=1)
    else:
        pool = None
        results = map(_work, tasks())
    try:
        for st in results:
            sem.release()
            a = agg[st["layer"]]
            for k in ("generated", "dups", "states", "execs", "ops", "skipped", "nontrivial"):
                a[k] += st[k]
            outcomes |= st["outcomes"]
            for nk, nv in st["notes"].items():
                notes[nk] = notes.get(nk, 0) + nv
            fails.extend(st["fails"])
            n_timeouts += sum(1 for f in st["fails"] if f["clause"].endswith(".terminates"))
            herr.extend(st["harness_errors"])
            if len(samples) < 6:
                samples.extend(st["samples"][:1])
            if n_timeouts >= MAX_TIMEOUTS:
                # the property is already refuted many times over by calls that do not return: every further one
                # would cost a whole watchdog horizon, so the exploration stops here (reported as capped)
                notes["stopped_after_non_terminating_calls"] = n_timeouts
                capped = True
                stop.append(1)
                for _ in range(NPROC * 8):
                    sem.release()
                break
            if budget_s and time.time() - t0 > budget_s:
                capped = True
                stop.append(1)
                for _ in range(NPROC * 8):
                    sem.release()
                break
    finally:
        if pool is not None:
            pool.terminate()
            pool.join()
    if not capped:
        for a in agg:
            a["complete"] = True
    lidx = {l.name: i for i, l in enumerate(layers)}
    fails.sort(key=lambda f: (lidx.get(f["layer"], 99), len(json.dumps(f["case"], default=str)), json.dumps(f["case"], default=str), f["clause"]))
    return {"layers": agg, "outcomes": len(outcomes), "fails": fails, "samples": samples,
            "harness_errors": herr, "capped": capped, "notes": notes, "wall_s": time.time() - t0,
            "order_sites": None}
