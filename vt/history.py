"""Explicit-state search over call histories on real objects (C19).

A domain provides seeds (builders of a fresh world), operations (world -> None, may create derived objects) and an
observation battery (world -> comparable value).  States are deduplicated by a deep structural fingerprint of the
world computed by reflection (every attribute reachable through vars()/__slots__/containers, aliasing included),
so two histories are merged only when every reachable attribute -- private caches included -- is equal.
"""
import hashlib

from .order import stable_repr


def fingerprint(obj, limit=20000):
    """Canonical digest of the object graph reachable from obj."""
    ids = {}
    out = []
    budget = [limit]

    def walk(x, depth):
        budget[0] -= 1
        if budget[0] < 0 or depth > 40:
            out.append("<cut>")
            return
        t = type(x)
        if x is None or t in (int, float, bool, str, bytes):
            out.append(repr(x))
            return
        if t is type or callable(x) and not hasattr(x, "__dict__"):
            out.append("<callable %s>" % getattr(x, "__name__", t.__name__))
            return
        i = id(x)
        if i in ids:
            out.append("@%d" % ids[i])
            return
        ids[i] = len(ids)
        name = t.__name__
        if t in (list, tuple):
            out.append(name + "[")
            for y in x:
                walk(y, depth + 1)
            out.append("]")
        elif t in (set, frozenset):
            out.append(name + "{")
            for y in sorted(x, key=stable_repr):
                walk(y, depth + 1)
            out.append("}")
        elif t is dict or name in ("dict_items", "dict_keys", "dict_values"):
            out.append("dict{")
            items = list(x.items()) if t is dict else [(y, None) for y in x]
            for k, v in sorted(items, key=lambda kv: stable_repr(kv[0])):
                walk(k, depth + 1)
                out.append(":")
                walk(v, depth + 1)
            out.append("}")
        elif name == "ndarray":
            out.append("ndarray[")
            for y in x.flatten().tolist():
                walk(y, depth + 1)
            out.append("]")
        elif name in ("MultiDiGraph", "DiGraph", "Graph"):
            out.append(name + "<" + repr(sorted(map(repr, x.nodes))) + repr(sorted(map(repr, x.edges(data=True)))) + ">")
        else:
            out.append(name + "<")
            d = getattr(x, "__dict__", None)
            attrs = []
            if d is not None:
                attrs += list(d.items())
            for cls in t.__mro__:
                for s in getattr(cls, "__slots__", ()):
                    if isinstance(s, str) and hasattr(x, s):
                        attrs.append((s, getattr(x, s)))
            if not attrs and d is None:
                out.append(repr(x))
            for k, v in sorted(attrs, key=lambda kv: kv[0]):
                if k == "_hash":
                    continue       # memoised hash values depend on PYTHONHASHSEED only, not on the history
                out.append(k + "=")
                walk(v, depth + 1)
            out.append(">")

    walk(obj, 0)
    return hashlib.blake2b("".join(out).encode("utf-8", "surrogatepass"), digest_size=10).hexdigest()


def explore(domain, seed_index, first_ops, depth, max_states=4000):
    """BFS over histories starting with each op of first_ops.  Returns (states, transitions, failures, truncated);
    failures are (history names, what) pairs."""
    seeds = domain.seeds()
    build = seeds[seed_index][1]
    ops = domain.ops()
    base_obs = {False: domain.observe(build())}
    light_ok = getattr(domain, "LIGHT", False)
    if light_ok:
        base_obs[True] = domain.observe(build(), light=True)
    seen, fails = set(), []
    transitions = 0
    frontier = [[i] for i in first_ops]
    truncated = False
    for d in range(1, depth + 1):
        nxt = []
        for hist in frontier:
            w = build()
            ok = True
            for oi in hist:
                try:
                    ops[oi][1](w)
                    transitions += 1
                except domain.DISABLED:
                    ok = False
                    break
                except Exception:
                    ok = False      # an operation failing on its own is another property's business
                    break
            if not ok:
                continue
            fp = fingerprint(w)
            if fp in seen:
                continue
            seen.add(fp)
            if len(seen) > max_states:
                truncated = True
                break
            # the deepest level of a search of depth >= 3 uses the light battery (queries, structure snapshot,
            # consistency of derived objects) -- the conversions' languages are compared on all shallower levels
            light = light_ok and d == depth and depth >= 3
            try:
                obs = domain.observe(w, light=True) if light else domain.observe(w)
                transitions += domain.BATTERY
            except Exception as e:
                obs = ("observation raised", type(e).__name__, str(e)[:200])
            if obs != base_obs[light]:
                fails.append(([ops[i][0] for i in hist], domain.diff(base_obs[light], obs)))
            if d < depth:
                for oi in range(len(ops)):
                    nxt.append(hist + [oi])
        if truncated:
            break
        frontier = nxt
    return len(seen), transitions, fails, truncated
