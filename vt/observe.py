"""Observation maps between library objects and reference structures, using only
the public documented accessors (DESIGN.md 2.5)."""
from .refs.nfa import NFA, EPS
from .gen import fa as genfa


def lib():
    import pyformlang.finite_automaton as m
    return m


# --------------------------------------------------------------- automata

def sym_values(k, symvals=None):
    return {i: (symvals[i - 1] if symvals else genfa.SYMS[i]) for i in range(1, k + 1)}


def ref_from_case(case, scheme="int", symvals=None):
    n, k, trans, st, fi = case
    nm = genfa.names(scheme, n)
    sv = sym_values(k, symvals)
    return NFA([nm[i] for i in range(n)],
               [nm[i] for i in range(n) if st >> i & 1],
               [nm[i] for i in range(n) if fi >> i & 1],
               [(nm[p], EPS if s == 0 else sv[s], nm[q]) for p, s, q in trans])


def case_kind(case):
    """Most specific class the structure is valid for: 'dfa', 'nfa', 'enfa'."""
    n, k, trans, st, fi = case
    if any(s == 0 for _, s, _ in trans):
        return "enfa"
    seen = set()
    for p, s, q in trans:
        if (p, s) in seen:
            return "nfa"
        seen.add((p, s))
    if bin(st).count("1") > 1:
        return "nfa"
    return "dfa"


def build_fa(case, cls="enfa", scheme="int", symvals=None, via="add"):
    """Build the automaton through the public API.  cls in enfa/nfa/dfa; via in
    add (add_transition/add_start_state/...) / ctor (constructor arguments, then
    add_transitions)."""
    m = lib()
    n, k, trans, st, fi = case
    nm = genfa.names(scheme, n)
    sv = sym_values(k, symvals)
    klass = {"enfa": m.EpsilonNFA, "nfa": m.NondeterministicFiniteAutomaton,
             "dfa": m.DeterministicFiniteAutomaton}[cls]
    starts = [nm[i] for i in range(n) if st >> i & 1]
    finals = [nm[i] for i in range(n) if fi >> i & 1]
    tr = [(nm[p], "epsilon" if s == 0 else sv[s], nm[q]) for p, s, q in trans]
    if via == "ctor_tf_partial":
        # a ready-made transition function plus declared states / symbols that name only part of what it uses
        tf = m.TransitionFunction() if cls == "dfa" else m.NondeterministicTransitionFunction()
        for p, s, q in tr:
            tf.add_transition(m.State(p), m.Epsilon() if s == "epsilon" else m.Symbol(s), m.State(q))
        part = {sv[1]}
        if cls == "dfa":
            return klass(states={nm[0]}, input_symbols=part, transition_function=tf,
                         start_state=starts[0] if starts else None, final_states=set(finals))
        return klass(states={nm[0]}, input_symbols=part, transition_function=tf, start_state=set(starts),
                     final_states=set(finals))
    if via == "ctor_tf_only":
        # the transition function, the start and the final states only: states and symbols are whatever they mention
        tf = m.TransitionFunction() if cls == "dfa" else m.NondeterministicTransitionFunction()
        for p, s, q in tr:
            tf.add_transition(m.State(p), m.Epsilon() if s == "epsilon" else m.Symbol(s), m.State(q))
        if cls == "dfa":
            return klass(transition_function=tf, start_state=starts[0] if starts else None, final_states=set(finals))
        return klass(transition_function=tf, start_state=set(starts), final_states=set(finals))
    if via == "ctor_tf":
        # documented constructor with a ready-made transition function (epsilon transitions included)
        tf = m.TransitionFunction() if cls == "dfa" else m.NondeterministicTransitionFunction()
        for p, s, q in tr:
            tf.add_transition(m.State(p), m.Epsilon() if s == "epsilon" else m.Symbol(s), m.State(q))
        if cls == "dfa":
            return klass(states=set(nm), input_symbols=set(sv.values()), transition_function=tf,
                         start_state=starts[0] if starts else None, final_states=set(finals))
        return klass(states=set(nm), input_symbols=set(sv.values()), transition_function=tf,
                     start_state=set(starts), final_states=set(finals))
    if via == "ctor_eps":
        # the declared alphabet mentions the epsilon spelling (constructor argument and add_symbol)
        a = klass(states=set(nm), input_symbols=set(sv.values()) | {"epsilon"}, start_state=set(starts),
                  final_states=set(finals))
        a.add_symbol("epsilon")
        a.add_transitions(tr)
        return a
    if via == "ctor":
        if cls == "dfa":
            a = klass(states=set(nm), input_symbols=set(sv.values()),
                      start_state=starts[0] if starts else None, final_states=set(finals))
        else:
            a = klass(states=set(nm), input_symbols=set(sv.values()),
                      start_state=set(starts), final_states=set(finals))
        a.add_transitions(tr)
        return a
    a = klass()
    for t in tr:
        a.add_transition(*t)
    for s in starts:
        a.add_start_state(s)
    for f in finals:
        a.add_final_state(f)
    return a


def extract_fa(a):
    """Library automaton -> reference NFA keyed by state/symbol *values*."""
    m = lib()
    trans = []
    for p, s, q in a:
        trans.append((p.value, EPS if isinstance(s, m.Epsilon) else s.value, q.value))
    r = NFA([s.value for s in a.states], [s.value for s in a.start_states],
            [s.value for s in a.final_states], trans)
    r.declared_alphabet = {s.value for s in a.symbols}
    return r


def lib_word(word):
    return list(word)


# --------------------------------------------------------------- grammars

def cfgmod():
    import pyformlang.cfg as m
    return m


def build_cfg(case, scheme="plain", via="full", share=None):
    """via: 'full' (variables, terminals, start symbol, productions all passed),
    'prods' (start symbol + productions only).  share: a dict; when given, the Production objects are created
    once and reused by every grammar built with the same dict."""
    from .gen import cfg as GC
    m = cfgmod()
    v, t, prods = case
    vn, tn = GC.names(case, scheme)
    V = [m.Variable(x) for x in vn]
    T = [m.Terminal(x) for x in tn]

    def sym(i):
        return V[i] if i < v else T[i - v]
    if share is not None and "P" in share:
        P = set(share["P"])
    else:
        P = {m.Production(V[h], [sym(s) for s in body]) for h, body in prods}
        if share is not None:
            share["P"] = list(P)
    if via == "full":
        return m.CFG(set(V), set(T), V[0], P)
    if via == "tuple2":
        return m.CFG(start_symbol=V[0], productions=tuple(sorted(P, key=repr)) +
                     tuple(m.Production(V[h], [sym(s) for s in body]) for h, body in prods))
    if via == "list2":
        # productions given as a list in which every production occurs twice (equal, distinct objects): the
        # signature takes any iterable, and the library's own passes hand such lists to the constructor
        return m.CFG(start_symbol=V[0], productions=sorted(P, key=repr) +
                     [m.Production(V[h], [sym(s) for s in body]) for h, body in prods])
    return m.CFG(start_symbol=V[0], productions=P)


def extract_cfg(g):
    """Library CFG -> reference Gram through variables / terminals / productions / start_symbol."""
    from .refs.cfg import Gram
    m = cfgmod()

    def sym(x):
        if isinstance(x, m.Variable):
            return ("V", x.value)
        if isinstance(x, m.Terminal):
            return ("T", x.value)
        raise TypeError("production symbol of unexpected type %r" % (type(x).__name__,))
    prods = []
    for p in g.productions:
        body = tuple(sym(x) for x in p.body if not isinstance(x, m.Epsilon))
        prods.append((sym(p.head), body))
    start = g.start_symbol
    return Gram(None if start is None else ("V", start.value), prods,
                [("V", x.value) for x in g.variables], [("T", x.value) for x in g.terminals])


# --------------------------------------------------------------- pushdown automata

def pdamod():
    import pyformlang.pda as m
    return m


def ref_pda_from_case(case, scheme="plain"):
    from .refs.pda import PDA
    from .gen import pda as GP
    q, g, trans, fi = case
    sn, kn = GP.names(scheme, q, g)
    return PDA(sn, sn[0], kn[0], [sn[i] for i in range(q) if fi >> i & 1],
               [(sn[p], GP.IN[a], kn[X], sn[r], tuple(kn[y] for y in gamma)) for p, a, X, r, gamma in trans])


def build_pda(case, scheme="plain", lazy=False):
    from .gen import pda as GP
    m = pdamod()
    q, g, trans, fi = case
    sn, kn = GP.names(scheme, q, g)
    if lazy is True:
        # nothing declared up front: start state/symbol, transitions and final states added one by one
        p = m.PDA()
        p.set_start_state(sn[0])
        p.set_start_stack_symbol(kn[0])
        for s, a, X, r, gamma in trans:
            p.add_transition(sn[s], "epsilon" if a == 0 else GP.IN[a], kn[X], sn[r], [kn[y] for y in gamma])
        for i in range(q):
            if fi >> i & 1:
                p.add_final_state(sn[i])
        return p
    if lazy == "tf_only":
        # the documented constructor argument transition_function; states and alphabets are whatever it mentions
        from pyformlang.pda.transition_function import TransitionFunction
        tf = TransitionFunction()
        for s, a, X, r, gamma in trans:
            tf.add_transition(m.State(sn[s]), m.Epsilon() if a == 0 else m.Symbol(GP.IN[a]), m.StackSymbol(kn[X]),
                              m.State(sn[r]), [m.StackSymbol(kn[y]) for y in gamma])
        return m.PDA(transition_function=tf, start_state=sn[0], start_stack_symbol=kn[0],
                     final_states={sn[i] for i in range(q) if fi >> i & 1})
    p = m.PDA(states=set(sn), input_symbols={"a", "b"}, stack_alphabet=set(kn), start_state=sn[0],
              start_stack_symbol=kn[0], final_states={sn[i] for i in range(q) if fi >> i & 1})
    for s, a, X, r, gamma in trans:
        p.add_transition(sn[s], "epsilon" if a == 0 else GP.IN[a], kn[X], sn[r], [kn[y] for y in gamma])
    return p


def extract_pda(p):
    """Library PDA -> reference PDA through states / start_state / final_states / to_dict() and the start stack
    symbol through to_networkx(), as the property prescribes."""
    import json
    from .refs.pda import PDA
    m = pdamod()
    trans = []
    for (s_from, a, X), outs in p.to_dict().items():
        for (s_to, gamma) in outs:
            trans.append((s_from.value, None if isinstance(a, m.Epsilon) else a.value, X.value, s_to.value,
                          tuple(y.value for y in gamma if not isinstance(y, m.Epsilon))))
    start = p.start_state
    g = p.to_networkx()
    ss = None
    for node, data in g.nodes(data=True):
        # the node the exporter invents for the start stack symbol: marked as such, or (older layout) known by its
        # name and by not being a state
        if data.get("is_initial_stack_symbol", node == "INITIAL_STACK_HIDDEN" and "is_start" not in data):
            ss = json.loads(data["label"])
    return PDA([s.value for s in p.states], None if start is None else start.value, ss,
               [s.value for s in p.final_states], trans)


# --------------------------------------------------------------- transducers

def ref_fst_from_case(case, scheme="str"):
    from .refs.fst import FST
    from .gen import fst as GT
    q, trans, st, fi = case
    nm = GT.names(scheme, q)
    return FST(nm, [nm[i] for i in range(q) if st >> i & 1], [nm[i] for i in range(q) if fi >> i & 1],
               [(nm[p], GT.IN[a], nm[r], GT.outs(scheme)[o]) for p, a, r, o in trans])


def build_fst(case, scheme="str"):
    from .gen import fst as GT
    from pyformlang.fst import FST
    q, trans, st, fi = case
    nm = GT.names(scheme, q)
    f = FST()
    for p, a, r, o in trans:
        out = GT.outs(scheme)[o]
        # "+tuple": the output word given as a tuple (documented: any iterable)
        f.add_transition(nm[p], "epsilon" if a == 0 else GT.IN[a], nm[r], tuple(out) if scheme.endswith("+tuple") else list(out))
    for i in range(q):
        if st >> i & 1:
            f.add_start_state(nm[i])
        if fi >> i & 1:
            f.add_final_state(nm[i])
    return f


def extract_fst(f):
    """Library FST -> reference FST through states / start_states / final_states / transitions."""
    from .refs.fst import FST
    trans = []
    for (p, a), outs in f.transitions.items():
        for (q, o) in outs:
            trans.append((p, None if a == "epsilon" else a, q, tuple(o)))
    return FST(f.states, f.start_states, f.final_states, trans)
