"""Writes MANIFEST.json from the table below (claimed checks) + properties.jsonl
(everything not claimed is listed under not_applicable with its reason)."""
import json, os
HERE = os.path.dirname(os.path.dirname(os.path.abspath(__file__)))
PY = "/venv/bin/python"

NOTE = "Trusted: CPython, the reference NFA semantics (two formulations cross-checked in selftest), the AST order hook (repo suite passes through it). Nothing beyond the listed layers is claimed."
CLAIMED = {
 "C01": dict(
   text="Bounded exhaustive exploration of the real code: every automaton of FA(2,{a,b},<=12) and FA(3,{a,b},<=3) modulo renaming (thorough: + FA(3,2,4), FA(3,1,<=6), FA(4,1,<=4)), "
        "built as epsilon-NFA/NFA/DFA through add_* calls and through constructor arguments, under natural and salted global set orders and naming schemes int/str plus adversarial names "
        "(mixed types, names equal to the library's merged-state names, TRASH/TrashNode/Empty) on complete small layers; accepts() compared on all words <=4 (+ foreign symbol, + epsilon spelling); "
        "to_deterministic/remove_epsilon_transitions/minimize/copy compared by an exact product-BFS language equivalence and shape inspection.",
   note=NOTE, technique="explicit-state enumeration of all small automata x order policies x naming schemes against a reference model (exact language equivalence)",
   design="DESIGN.md §3 C01"),
 "C02": dict(
   text="Every ordered pair from the iso-reduced pools FA(2,{a,b},<=1) (quick) / FA(2,{a,b},<=2) (thorough), second operand also over {b,c}, {a} and mixed-type symbols, plus differential pairs "
        "variant_u(X), variant_v(X) (identity / explicit sink / unreachable state / reachable dead state; equal languages by construction), in every class combination: is_equivalent_to and == "
        "compared with an exact product-BFS equivalence; minimize() checked for language, reachability, pairwise distinguishability (own Moore refinement) and isomorphism across equivalent operands.",
   note=NOTE, technique="explicit-state enumeration of all ordered pairs of small automata x order policies against an exact reference equivalence",
   design="DESIGN.md §3 C02"),
 "C03": dict(
   text="Unary operations (complement, reverse, kleene_star and operator forms) on every epsilon-NFA of FA(2,2,<=12) and FA(3,2,<=3) modulo renaming; binary operations (intersection, difference, "
        "union, concatenate and operator forms) on all ordered pairs of small pools with shared state names, overlapping/disjoint alphabets and the same object as both operands; every result "
        "compared exactly (product BFS over subset automata) with the set-theoretic result, operands snapshotted before/after.",
   note=NOTE, technique="explicit-state enumeration of all small operands / operand pairs x order policies against reference set algebra (exact)",
   design="DESIGN.md §3 C03"),
 "C06": dict(
   text="to_regex() on every epsilon-NFA of FA(2,2,<=12) and FA(3,2,<=3) modulo renaming (thorough: up to 4 states), plain-token symbols, under natural and salted set orders (state elimination "
        "order follows set order): the returned tree (walked through head/sons, own semantics), regex.accepts and regex.to_epsilon_nfa() are each compared exactly with the automaton's language.",
   note=NOTE, technique="explicit-state enumeration of all small automata x elimination orders against a reference regex/NFA semantics (exact)",
   design="DESIGN.md §3 C06"),
 "C04": dict(
   text="Bounded exhaustive exploration of the real code: every epsilon-NFA of the layers FA(2,{a,b},<=12 edges) and FA(3,{a,b},<=3 edges) "
        "(thorough: + FA(3,2,4), FA(3,1,<=6), FA(4,1,<=4)), modulo renaming, built as every class it is valid for, under natural set order and salted "
        "global set orders (import-time order scheduler) and two naming schemes; is_empty/is_deterministic/is_acyclic compared with independent graph "
        "algorithms, get_accepted_words(n), n=0..4 and None on finite languages, compared as a multiset with the reference language.",
   note="Trusted: CPython, the reference NFA semantics (two formulations cross-checked in selftest), the AST order hook (repo suite passes through it). "
        "Nothing beyond the listed layers is claimed.",
   technique="explicit-state enumeration of all small automata x set-iteration-order policies against a reference model",
   design="DESIGN.md §3 C04"),
}
NA = {}

def main():
    props = [json.loads(l) for l in open(os.path.join(HERE, "properties.jsonl"))]
    checks, na = [], []
    for p in props:
        pid = p["id"]
        if pid in CLAIMED:
            c = CLAIMED[pid]
            checks.append({
                "property_id": pid,
                "quick_cmd": "%s run.py %s --tier quick" % (PY, pid),
                "thorough_cmd": "%s run.py %s --tier thorough" % (PY, pid),
                "evidence_file": "/verif/evidence/%s.json" % pid,
                "replay_cmd_template": "%s run.py %s --replay {path}" % (PY, pid),
                "engine": "vt-explorer",
                "level_claimed": {"category": "model_checking", "text": c["text"], "design_ref": c["design"]},
                "level_note": c["note"],
                "technique": c["technique"]})
        else:
            na.append({"property_id": pid, "reason": NA.get(pid, "check not built yet in this session (planned, see DESIGN.md §3); not claimed until its check exists and is silent on the unchanged tree")})
    man = {
        "version": 1,
        "setup_cmd": "%s run.py selftest" % PY,
        "hooks": {"guard": "PYFORMLANG_VERIF",
                  "enable": "no source hook in /repo: checks load pyformlang from /repo's working tree through vt/loader.py, which rewrites set-iteration points in memory (AST) and sets PYFORMLANG_VERIF=1",
                  "baseline_off_cmd": "cd /repo && /venv/bin/python -m pytest -q -p no:cacheprovider --timeout=900",
                  "source_commits": [], "add_only": True},
        "engines": [{"name": "vt-explorer", "path": "/verif/vt/engine.py", "serves_properties": sorted(CLAIMED),
                     "kind_free_text": "hand-written explicit-state explorer: complete enumeration of small inputs/histories x controlled set-iteration orders, real code vs independent reference models, fork pool of 16"}],
        "checks": checks,
        "not_applicable": na,
        "notes": "All checks: cwd=/verif, interpreter /venv/bin/python, offline. VERIF_SEED adds order policies only; it never selects which inputs are explored. Known findings: /verif/known_findings.json."
    }
    with open(os.path.join(HERE, "MANIFEST.json"), "w") as f:
        json.dump(man, f, indent=1)
    print("claimed", sorted(CLAIMED), "not claimed", len(na))

if __name__ == "__main__":
    main()
