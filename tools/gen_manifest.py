"""Writes MANIFEST.json from the table below (claimed checks) + properties.jsonl
(everything not claimed is listed under not_applicable with its reason)."""
import json, os
HERE = os.path.dirname(os.path.dirname(os.path.abspath(__file__)))
PY = "/venv/bin/python"

NOTE = "Trusted: CPython, the reference NFA semantics (two formulations cross-checked in selftest), the AST order hook (repo suite passes through it). Nothing beyond the listed layers is claimed."
CLAIMED = {
 "C01": dict(
   text="Bounded exhaustive exploration of the real code: every automaton of FA(2,{a,b},<=12) and FA(3,{a,b},<=3) modulo renaming (thorough: + FA(3,2,4), FA(3,1,<=6), FA(4,1,<=4)), "
        "built as epsilon-NFA/NFA/DFA through add_* calls and through constructor arguments, under natural and salted global set orders and naming schemes int/str plus adversarial names "
        "(mixed types, names equal to the library's merged-state names, TRASH/TrashNode/Empty) on complete small layers, plus a family of 5-state cycle DFAs (Hopcroft worklist) and automata built through the constructor with a ready-made transition function; accepts() compared on all words <=3 (4 thorough) (+ foreign symbol, + epsilon spelling); "
        "to_deterministic/remove_epsilon_transitions/minimize/copy compared by an exact product-BFS language equivalence and shape inspection. Epsilon cases are also offered to the NFA class (refusal or obedience), automata are also built from a transition function alone and with a declared alphabet that mentions the epsilon spelling.",
   note=NOTE, technique="explicit-state enumeration of all small automata x order policies x naming schemes against a reference model (exact language equivalence)",
   design="DESIGN.md §3 C01"),
 "C02": dict(
   text="Every ordered pair from the iso-reduced pools FA(2,{a,b},<=1) (quick) / FA(2,{a,b},<=2) (thorough), second operand also over {b,c}, {a} and mixed-type symbols, plus differential pairs "
        "variant_u(X), variant_v(X) (identity / explicit sink / unreachable state / reachable dead state; equal languages by construction), in every class combination: is_equivalent_to and == "
        "compared with an exact product-BFS equivalence; minimize() checked for language, reachability, pairwise distinguishability (own Moore refinement) and isomorphism across equivalent operands, also on cycle DFAs with 4-5 states (a = cycle, b = any partial function, any final set).",
   note=NOTE, technique="explicit-state enumeration of all ordered pairs of small automata x order policies against an exact reference equivalence",
   design="DESIGN.md §3 C02"),
 "C03": dict(
   text="Unary operations (complement, reverse, kleene_star and operator forms) on every epsilon-NFA of FA(2,2,<=12) and FA(3,2,<=3) modulo renaming; binary operations (intersection, difference, "
        "union, concatenate and operator forms) on all ordered pairs of small pools with shared state names, overlapping/disjoint alphabets and the same object as both operands; every result "
        "compared exactly (product BFS over subset automata) with the set-theoretic result, operands snapshotted before/after; NFA- and DFA-typed operands, reserved state names and a & -a included. Extra layers: state names whose pair spellings coincide; operands over whole symbols spelt like regex operators.",
   note=NOTE, technique="explicit-state enumeration of all small operands / operand pairs x order policies against reference set algebra (exact)",
   design="DESIGN.md §3 C03"),
 "C06": dict(
   text="to_regex() on every epsilon-NFA of FA(2,2,<=12) and FA(3,2,<=3) modulo renaming (thorough: up to 4 states), plain-token symbols, under natural and salted set orders (state elimination "
        "order follows set order), plus reserved state names and trim 4-state automata with 5 transitions (cycles through two eliminated states, parallel edges): the returned tree (walked through head/sons, own semantics), regex.accepts and regex.to_epsilon_nfa() are each compared exactly with the automaton's language. Extra layer: whole symbols spelt like regex operators ($, +).",
   note=NOTE, technique="explicit-state enumeration of all small automata x elimination orders against a reference regex/NFA semantics (exact)",
   design="DESIGN.md §3 C06"),
 "C05": dict(
   text="Every string of <= 4 tokens (5 thorough) over the documented token alphabet incl. blanks, both spellings of each operator, epsilon/$ and escaped operators -- well-formed, ill-formed and "
        "unspecified texts classified by an independent tokenizer + recursive-descent parser -- and every regex AST of <= 5 nodes (6 thorough) in 12 renderings (minimal / redundant parentheses x "
        "concatenation and union spellings): construction outcome / exception type, the tree (head/sons), accepts, to_epsilon_nfa (exact), to_cfg (words <= 4 + contains), str() re-parse; "
        "union/concatenate/kleene_star on all ordered pairs of ASTs <= 3 nodes incl. the operands' answers afterwards. The token alphabet includes the escaped blank; to_cfg is also run with starting symbols named like its own fresh variables.",
   note=NOTE, technique="exhaustive enumeration of token strings and regex ASTs against a reference parser + denotational semantics (exact NFA equivalence)",
   design="DESIGN.md §3 C05"),
 "C07": dict(
   text="Every pattern of the generated documented subset (29 atoms x 13 quantifiers; binary combinations; quantified groups; nested quantified groups; pruned depth 3 in thorough; patterns "
        "Python rejects) x 477 strings (all of length <= 2 over a 12-letter boundary alphabet, all of length <= 4 over {a,b,0,-}): PythonRegex(p).accepts(s) == (re.fullmatch(p, s) is not None). Atoms include hyphen-first, bracket-literal and newline sets; the string alphabet includes newline, '[', n, t.",
   note="Trusted: CPython's re (the property's own oracle). Patterns outside the generated family are not claimed.",
   technique="exhaustive enumeration of the pattern family x string family against CPython re as reference model",
   design="DESIGN.md §3 C07"),
 "C08": dict(
   text="Every grammar of CFG(2 variables, {a,b}, bodies <= 2, <= 3 productions) and CFG(2,2,3,<=2) modulo renaming (thorough: 4 productions, 3 variables), plus adversarial names (a#CNF#, C#CNF#k, "
        "a variable and a terminal with the same spelling) and all grammars of CFG(3,2,1,<=5) (unit/terminal/epsilon productions only): contains / in / generate_epsilon on every word <= 4 over {a,b} + unknown symbols (also spelled like variables), on a shared object and on a second grammar built from "
        "the same Production objects, compared with a least-fixpoint derivability oracle, under natural and salted set orders.",
   note="Trusted: CFG oracle (two formulations cross-checked in selftest); languages decided up to word length 4.",
   technique="exhaustive enumeration of small grammars x words x order policies against a least-fixpoint derivability oracle",
   design="DESIGN.md §3 C08"),
 "C09": dict(
   text="The same grammar layers plus all pairs of long productions sharing a suffix (and such pairs with one more short production), all triples of length-3 productions over one variable, and grammars that already use C#CNF#1/C#CNF#2: each of remove_useless_symbols, remove_epsilon, "
        "eliminate_unit_productions, to_normal_form on a fresh object; result language (words <= 4, extracted productions through the oracle and result.contains) and promised shape by own inspection.",
   note="Trusted: CFG oracle; grammar languages compared on words <= 4 (general equality undecidable).",
   technique="exhaustive enumeration of small grammars x order policies against a bounded-language oracle + shape inspection",
   design="DESIGN.md §3 C09"),
 "C10": dict(
   text="closure / positive closure / reverse on every grammar of the iso-reduced pool CFG(2,2,2,<=3) (fresh and previously queried operand); union / concatenate on ordered pairs from CFG(2,2,2,<=2) "
        "incl. the same object twice; substitute with one terminal, two terminals mapped to the same grammar object, identity, absent terminal; adversarial names (#SUBS#, #STARTUNION#, #0UNION#); "
        "results compared with set algebra on L<=4 / an own grammar composition. Also: variables of different types with one spelling, and the start-symbol-less grammar CFG() as operand.",
   note="Trusted: CFG oracle; words <= 4.",
   technique="exhaustive enumeration of operand grammars / pairs against reference set algebra on bounded languages",
   design="DESIGN.md §3 C10"),
 "C11": dict(
   text="Left: every grammar of the pool CFG(2,2,2,<=2) / every PDA of PDA(2,2,2,<=t) with final states; right: every automaton of FA(2,{a,b},<=1) (thorough <=2) as every class it is valid for, over "
        "{a,b} and {b,c}, and 20 regexes; non-regular operands must raise NotImplementedError; result language = {w in L(left) : right accepts w} on all words <= 4 (CFG) / <= 3 (PDA, exact summary oracle). Also: values of different types with one spelling, and every empty intersection used again (intersected, converted).",
   note="Trusted: CFG / PDA / NFA oracles (cross-checked in selftest).",
   technique="exhaustive enumeration of operand pairs against reference CFG / PDA / NFA semantics",
   design="DESIGN.md §3 C11"),
 "C12": dict(
   text="Same grammar layers as C08: is_empty, is_finite (exact growing-cycle oracle), generating / nullable / reachable symbols (textbook worklists), get_words(n) for n=0..4 and unbounded on every "
        "finite language as a multiset of lists of terminals; each query on a fresh object and all queries in sequence on one object, under natural and salted set orders.",
   note="Trusted: CFG oracle incl. finiteness (two formulations cross-checked in selftest).",
   technique="exhaustive enumeration of small grammars x bounds x order policies against reference fixpoints",
   design="DESIGN.md §3 C12"),
 "C13": dict(
   text="Every PDA of PDA(2 states, stack {Z,X}, pushes <= 2, <= 2 transitions, any finals) modulo letter swap (thorough: 3 transitions, pushes 3, 3 states) with plain and reserved names, and every "
        "grammar of CFG(2,2,2,<=3) incl. a variable named #TERM#a under 4 orders, every one-state PDA with 3 transitions, PDAs assembled call by call and conversions of conversions: to_pda, to_cfg, to_final_state, to_empty_stack compared on all words <= 3 with an exact summary-fixpoint PDA oracle applied to the extracted results. Also: values of different types with one spelling (variables, terminals, states, stack symbols), CFG() and PDAs given as a ready-made transition function.",
   note="Trusted: PDA summary oracle (cross-checked against configuration BFS in selftest), CFG oracle.",
   technique="exhaustive enumeration of small PDAs / grammars x order policies against an exact PDA acceptance oracle",
   design="DESIGN.md §3 C13"),
 "C14": dict(
   text="Every grammar of CFG(2,2,2,<=4), CFG(2,2,3,<=2), CFG(3,2,2,<=3) modulo renaming without useless symbols: FIRST/FOLLOW on variables and the LL(1) verdict against textbook fixpoints; for LL(1) "
        "grammars the parser on every word <= 4 (+ unknown symbol): tree iff member, NotParsableException otherwise, trees validated. Also: a variable and a terminal called '$', every grammar as a list naming each production twice and after eliminate_unit_productions().",
   note="Trusted: FIRST/FOLLOW/PREDICT reference (second brute-force formulation in selftest), CFG oracle.",
   technique="exhaustive enumeration of small grammars x words against textbook LL(1) reference sets",
   design="DESIGN.md §3 C14"),
 "C15": dict(
   text="Every grammar of CFG(2,2,2,<=3) and CFG(2,2,3,<=2) (ambiguous ones included) x every word <= 4 through get_cnf_parse_tree, LLOneParser, RecursiveDecentParser (both directions) and FCFG.get_parse_tree: "
        "each returned tree is validated node by node against the grammar (root, productions, epsilon leaves, frontier, acyclic), leftmost and rightmost derivations step by step, refusals by exception type.",
   note="Trusted: tree/derivation validator, CFG oracle. Recursive descent only where documented to terminate.",
   technique="exhaustive enumeration of small grammars x words; every returned tree/derivation validated against the grammar",
   design="DESIGN.md §3 C15"),
 "C16": dict(
   text="Every transducer of FST(2 states, input {a,b,eps}, outputs {-,x,y,xy}, <= 2 transitions (3 thorough), any start/final sets) whose epsilon cycles write nothing: translate on all inputs <= 3; "
        "kleene_star; union / concatenate on all ordered pairs of the <= 1 transition pool with shared str, int and prefix-digit state names, a state named like the star hub, output symbols whose concatenations coincide; to_fst on FA(2,{a,b},<=3); relations of extracted results compared exactly per input. Also: state names of different types with one spelling, outputs given as tuples.",
   note="Trusted: FST relation reference (BFS; path enumeration cross-check in selftest).",
   technique="exhaustive enumeration of small transducers / pairs x inputs against a reference transduction relation",
   design="DESIGN.md §3 C16"),
 "C17": dict(
   text="Every reduced-form indexed grammar over S,A,B / f,g with <= 3 rules (4 thorough) modulo renaming x every permutation of the rule list x optim 0..8 (random.shuffle owned), queried twice and after "
        "remove_useless_rules(), plus duplication chains over 4 non-terminals and push/pop chains of <= 5 steps with an extra consumption rule, against an exact stack-profile fixpoint; intersection with 12 regular languages (Regex/DFA/eps-NFA) against an own triple construction. Slow (exponential) intersections are counted as inconclusive. Also: start variable called A, every rule listed twice, clashing spellings (terminal spelt like a non-terminal, non-terminal 'epsilon', indices 1/'1'), results intersected again.",
   note="Trusted: stack-profile fixpoint (cross-checked by bounded derivations in selftest).",
   technique="exhaustive enumeration of small indexed grammars x rule orders x heuristics against an exact emptiness fixpoint",
   design="DESIGN.md §3 C17"),
 "C18": dict(
   text="All 317k ordered pairs of consistently typed feature structures of depth <= 2 with <= 1 shared node: unify raises iff the reference MGU clashes, the receiver's observable (paths, atoms, sharing) equals "
        "the reference MGU, both argument orders agree; every FCFG from a useful skeleton of CFG(2,2,2,<=3) with <= 2 annotated occurrences (F=p/q/?x) and from two 3-variable agreement skeletons with <= 4 annotated occurrences x words <= 3 against the instantiate-to-CFG oracle; feature-free FCFG vs CFG.contains. Also: a lexical-ambiguity family (one head and body under two annotations, a variable called Gamma) and every grammar text with the productions of one head merged on one line.",
   note="Trusted: union-find MGU reference, CFG oracle.",
   technique="exhaustive enumeration of feature-structure pairs and annotated grammars against reference unification / instantiation",
   design="DESIGN.md §3 C18"),
 "C19": dict(
   text="Explicit-state BFS over call histories on real objects: 20 seed objects (automata, regexes, grammars, PDAs, transducers, indexed grammars), alphabets of 6-27 operations (queries, conversions, conversions of "
        "conversions, the same object as both operands, mutations of returned objects), depth <= 3 (4 thorough); states deduplicated by a deep structural fingerprint (private caches, aliasing); in every state the "
        "observation battery on the seed equals the battery on a fresh twin, the seed's public structure is unchanged, and every derived (possibly mutated) automaton / grammar answers according to its own current structure. The indexed-grammar alphabet includes the public mutators of the seed's own Rules object; the PDA alphabet includes emptying the dictionary returned by to_dict().",
   note="Trusted: fingerprint soundness (equal fingerprints => equal futures under a fixed order policy); semantic comparison of returned objects.",
   technique="explicit-state breadth-first search over operation sequences on the real objects with state hashing and a fresh-twin differential oracle",
   design="DESIGN.md §3 C19"),
 "C20": dict(
   text="networkx round trip of every eps-NFA of FA(2,{a,b},<=4) and FA(3,2,<=2) with isolated states under 5 naming schemes (incl. helper-node names, odd strings) and odd symbol values, of PDA(2,2,2,<=2) and FST(2,<=2); "
        "text round trip of CFG(2,2,2,<=3) under 5 spellings (VAR:/TER: markers, same spelling for a variable and a terminal); from_ebnf / from_regex on every text of 1-2 lines (3 strided) with bodies from all regex ASTs <= 3 nodes: boxes, box languages (exact), start box. Also: terminals spelt like epsilon markers, PDAs with a state called INITIAL_STACK_HIDDEN (with/without start stack symbol), EBNF texts without a line for S.",
   note="Trusted: extraction through public accessors, NFA/regex/CFG oracles.",
   technique="exhaustive enumeration of small machines / grammars / EBNF texts x naming schemes; structural and exact language comparison after the round trip",
   design="DESIGN.md §3 C20"),

 "C04": dict(
   text="Bounded exhaustive exploration of the real code: every epsilon-NFA of the layers FA(2,{a,b},<=12 edges) and FA(3,{a,b},<=3 edges) "
        "(thorough: + FA(3,2,4), FA(3,1,<=6), FA(4,1,<=4)), modulo renaming, built as every class it is valid for, under natural set order and salted "
        "global set orders (import-time order scheduler) and two naming schemes; is_empty/is_deterministic/is_acyclic compared with independent graph "
        "algorithms, get_accepted_words(n), n=0..4 and None on finite languages, compared as a multiset with the reference language.",
   note="Trusted: CPython, the reference NFA semantics (two formulations cross-checked in selftest), the AST order hook (repo suite passes through it). "
        "Nothing beyond the listed layers is claimed.",
   technique="explicit-state enumeration of all small automata x set-iteration-order policies against a reference model",
   design="DESIGN.md §3 C04"),
}
NA = {}

def main():
    props = [json.loads(l) for l in open(os.path.join(HERE, "properties.jsonl"))]
    checks, na = [], []
    for p in props:
        pid = p["id"]
        if pid in CLAIMED:
            c = CLAIMED[pid]
            checks.append({
                "property_id": pid,
                "quick_cmd": "%s run.py %s --tier quick" % (PY, pid),
                "thorough_cmd": "%s run.py %s --tier thorough" % (PY, pid),
                "evidence_file": "/verif/evidence/%s.json" % pid,
                "replay_cmd_template": "%s run.py %s --replay {path}" % (PY, pid),
                "engine": "vt-explorer",
                "level_claimed": {"category": "model_checking", "text": c["text"], "design_ref": c["design"]},
                "level_note": c["note"],
                "technique": c["technique"]})
        else:
            na.append({"property_id": pid, "reason": NA.get(pid, "check not built yet in this session (planned, see DESIGN.md §3); not claimed until its check exists and is silent on the unchanged tree")})
    man = {
        "version": 1,
        "setup_cmd": "%s run.py selftest" % PY,
        "hooks": {"guard": "PYFORMLANG_VERIF",
                  "enable": "no source hook in /repo: checks load pyformlang from /repo's working tree through vt/loader.py, which rewrites set-iteration points in memory (AST) and sets PYFORMLANG_VERIF=1",
                  "baseline_off_cmd": "cd /repo && /venv/bin/python -m pytest -q -p no:cacheprovider --timeout=900",
                  "source_commits": [], "add_only": True},
        "engines": [{"name": "vt-explorer", "path": "/verif/vt/engine.py", "serves_properties": sorted(CLAIMED),
                     "kind_free_text": "hand-written explicit-state explorer: complete enumeration of small inputs/histories x controlled set-iteration orders, real code vs independent reference models, fork pool of 16"}],
        "checks": checks,
        "not_applicable": na,
        "notes": "All checks: cwd=/verif, interpreter /venv/bin/python, offline. VERIF_SEED adds order policies only; it never selects which inputs are explored. Known findings: /verif/known_findings.json."
    }
    with open(os.path.join(HERE, "MANIFEST.json"), "w") as f:
        json.dump(man, f, indent=1)
    print("claimed", sorted(CLAIMED), "not claimed", len(na))

if __name__ == "__main__":
    main()
