"""keep_mutant.py <src dir> <seed id> <prop> [<prop>...]: confirm a seeded change (suite passes, demo fails only with
the patch), run the listed quick checks against it and store everything under /verif/seeded/<seed id>/."""
import json, os, shutil, subprocess, sys
src, sid, props = sys.argv[1], sys.argv[2], sys.argv[3:]
out = subprocess.run(["/verif/tools/try_mutant.sh", src] + props, capture_output=True, text=True).stdout
lines = out.splitlines()
suite = next((l for l in lines if l.startswith("suite")), "")
clean = next((l for l in lines if l.startswith("demo on clean")), "")
patched = next((l for l in lines if l.startswith("demo on patched")), "")
checks = {l.split()[1].rstrip(":"): ("caught" if "exit 1 " in l else "missed" if "exit 0 " in l else "error") for l in lines if l.startswith("check ")}
ok = "289 passed" in suite and clean.endswith("exit 0") and patched.endswith("exit 1")
meta = json.load(open(os.path.join(src, "meta.json"))) if os.path.exists(os.path.join(src, "meta.json")) else {}
meta.update({"seed_id": sid, "confirmed": ok, "suite_with_patch": suite, "demo_clean": clean, "demo_patched": patched,
             "checks": checks, "ran": "tools/try_mutant.sh (scratch worktree of /repo HEAD under /dev/shm, git apply patch.diff, "
             "repo test-suite, demo.py on clean and patched tree, quick check with VERIF_REPO=<scratch tree>)"})
print(sid, "confirmed" if ok else "NOT CONFIRMED", checks)
if ok:
    d = os.path.join("/verif/seeded", sid)
    os.makedirs(d, exist_ok=True)
    for f in ("patch.diff", "demo.py"):
        shutil.copy(os.path.join(src, f), os.path.join(d, f))
    json.dump(meta, open(os.path.join(d, "meta.json"), "w"), indent=1)
    open(os.path.join(d, "check_output.txt"), "w").write(out)
