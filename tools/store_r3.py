"""store_r3.py <results file>...: store the seeded changes of a try-mutant results file (produced by /tmp/run_r3.sh:
'=== <id> <mK> <time>' followed by the try_mutant.sh lines) under /verif/seeded/<id>-<mK>/ when they are confirmed (suite
passes, demo 0 on clean / 1 on patched) AND were caught in that run; prints the ones that still need a re-run."""
import json, os, re, shutil, sys
todo = []
for rf in sys.argv[1:]:
    blocks = re.split(r"^=== ", open(rf).read(), flags=re.M)[1:]
    for b in blocks:
        head, *lines = b.splitlines()
        sid, mk = head.split()[:2]
        src = "/tmp/mut/%s/%s" % (sid, mk)
        suite = next((l for l in lines if l.startswith("suite")), "")
        clean = next((l for l in lines if l.startswith("demo on clean")), "")
        patched = next((l for l in lines if l.startswith("demo on patched")), "")
        checks = {l.split()[1].rstrip(":"): ("caught" if "exit 1 " in l else "missed" if "exit 0 " in l else "error")
                  for l in lines if l.startswith("check ")}
        ok = "289 passed" in suite and clean.endswith("exit 0") and patched.endswith("exit 1")
        name = "%s-%s" % (sid, mk)
        if not ok:
            print(name, "NOT CONFIRMED", suite, clean, patched)
            continue
        if "caught" not in checks.values():
            todo.append(name)
            continue
        meta = json.load(open(os.path.join(src, "meta.json")))
        meta.update({"seed_id": name, "confirmed": True, "suite_with_patch": suite, "demo_clean": clean, "demo_patched": patched,
                     "checks": checks, "ran": "tools/try_mutant.sh (scratch worktree of /repo HEAD under /dev/shm, git apply "
                     "patch.diff, repo test-suite, demo.py on clean and patched tree, quick check with VERIF_REPO=<scratch tree>)"})
        d = os.path.join("/verif/seeded", name)
        os.makedirs(d, exist_ok=True)
        for f in ("patch.diff", "demo.py"):
            shutil.copy(os.path.join(src, f), os.path.join(d, f))
        json.dump(meta, open(os.path.join(d, "meta.json"), "w"), indent=1)
        open(os.path.join(d, "check_output.txt"), "w").write("=== " + b)
        print(name, "stored", checks)
print("TODO (missed in that run, re-run with tools/keep_mutant.py after strengthening):", " ".join(todo))
