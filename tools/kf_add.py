"""kf_add.py <id> <property> <commit|-> <what failed> [clause,clause] [scope]  -- append an entry to known_findings.json
commit '-' => open finding (needs scope)."""
import json, sys, os
p = os.path.join(os.path.dirname(os.path.dirname(os.path.abspath(__file__))), "known_findings.json")
d = json.load(open(p))
fid, prop, commit, what = sys.argv[1:5]
clauses = sys.argv[5].split(",") if len(sys.argv) > 5 else []
e = {"id": fid, "property": prop, "what": what, "clauses": clauses}
if commit == "-":
    e.update(status="open", scope=sys.argv[6])
else:
    e.update(status="fixed", commit=commit, record="fixed: property=%s %s %s" % (prop, commit, what))
d["findings"] = [x for x in d["findings"] if x["id"] != fid] + [e]
json.dump(d, open(p, "w"), indent=1)
print("ok", fid)
