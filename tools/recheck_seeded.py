"""recheck_seeded.py [ids...]: re-run, for every stored seeded change, the quick checks that are recorded as catching it
(scratch worktree + VERIF_REPO); prints one line per (change, check) and a summary.  Updates meta.json['checks']."""
import json, os, subprocess, sys, glob
root = "/verif/seeded"
ids = sys.argv[1:] or sorted(d for d in os.listdir(root) if d != "NEUTRAL")
bad = 0
for sid in ids:
    d = os.path.join(root, sid)
    meta = json.load(open(os.path.join(d, "meta.json")))
    props = [p for p, v in meta.get("checks", {}).items() if v == "caught"] or [meta.get("property", sid.split("-")[0][-3:])]
    out = subprocess.run(["/verif/tools/try_mutant.sh", d] + props, capture_output=True, text=True).stdout
    lines = [l for l in out.splitlines() if l.startswith("check ")]
    res = {l.split()[1].rstrip(":"): ("caught" if "exit 1 " in l else "missed") for l in lines}
    applies = "patch does not apply" not in out
    print(sid, "applies" if applies else "PATCH DOES NOT APPLY", res, flush=True)
    if applies:
        meta.setdefault("checks", {}).update(res)
        json.dump(meta, open(os.path.join(d, "meta.json"), "w"), indent=1)
        if "caught" not in res.values():
            bad += 1
print("SUMMARY: %d seeded changes re-checked, %d no longer caught" % (len(ids), bad))
