#!/bin/bash
# try_all.sh <root dir of mutants: <root>/<PROP>/<mK>/patch.diff> [props...]  -> appends to <root>/results.txt
ROOT=$1; shift
for PD in ${@:-$(ls -d $ROOT/C*/ | xargs -n1 basename)}; do
  for M in $ROOT/$PD/m*/; do
    [ -f $M/patch.diff ] || continue
    echo "=== $PD $(basename $M) $(date +%H:%M:%S)" >> $ROOT/results.txt
    /verif/tools/try_mutant.sh $M $PD 2>&1 | grep -v "^  clause" >> $ROOT/results.txt
  done
done
echo "ALLDONE" >> $ROOT/results.txt
