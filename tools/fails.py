import json, collections, sys
f=json.load(open(sys.argv[1]))
c=collections.Counter((x['clause'],x['layer'],str(x['detail'].get('got',''))[:70]) for x in f)
for k,v in sorted(c.items()): print(v,k)
n=int(sys.argv[2]) if len(sys.argv)>2 else 0
pat=sys.argv[3] if len(sys.argv)>3 else ''
k=0
for x in f:
    if pat in x['clause']:
        print(x['clause'],json.dumps(x['case']),x['policies'][:3],json.dumps(x['detail'])[:700]); k+=1
        if k>=n: break
