#!/bin/bash
# runs the thorough tier of the listed properties one after the other (each uses all cores); summary lines only
for P in "$@"; do
  S=$(date +%s)
  /venv/bin/python run.py $P --tier thorough --no-evidence --dump-fails /tmp/thorough_$P.json 2>&1 | grep -E "tier=|^VIOLATION|HARNESS|KNOWN|notes|  layer" | cut -c1-220
  echo "== $P exit=${PIPESTATUS[0]} $(( $(date +%s) - S ))s"
done
