#!/bin/bash
# try_neutral.sh <dir with patch.diff> [props...]: a behaviour-preserving change must leave every check silent (exit 0)
D=$(realpath "$1"); shift
W=/dev/shm/neu_$$
git -C /repo worktree add -q --detach $W HEAD || exit 3
trap 'git -C /repo worktree remove --force $W >/dev/null 2>&1; rm -rf $W' EXIT
git -C $W apply "$D/patch.diff" || { echo "patch does not apply"; exit 3; }
echo "suite(with patch): $(cd $W && timeout 900 /venv/bin/python -m pytest -q -p no:cacheprovider --timeout=900 pyformlang 2>&1 | tail -1)"
for P in ${@:-C01 C02 C03 C04 C05 C06 C07 C08 C09 C10 C11 C12 C13 C14 C15 C16 C17 C18 C19 C20}; do
  OUT=$(cd /verif && VERIF_REPO=$W timeout 3600 /venv/bin/python run.py $P --tier quick --no-evidence 2>&1); RC=$?
  echo "neutral $(basename $D) $P exit=$RC $(echo "$OUT" | grep -c '^VIOLATION') violations"
  [ $RC -ne 0 ] && echo "$OUT" | grep -A1 "^VIOLATION\|HARNESS" | head -6 | cut -c1-600
done
