"""Runs the repository's own test-suite through the verification loader under a
given order policy: checks that the AST rewrite is semantically transparent and
that order permutation alone does not break what the suite pins down."""
import os, sys
sys.path.insert(0, os.path.dirname(os.path.dirname(os.path.abspath(__file__))))
from vt import loader, order
loader.install()
policy = sys.argv[1] if len(sys.argv) > 1 else "natural"
order.set_policy(policy)
import pytest
os.chdir(loader.REPO)
rc = pytest.main(["-q", "-p", "no:cacheprovider", "-x", "--timeout=900", "pyformlang"] + sys.argv[2:])
print("policy", policy, "sites", loader.STATS, "reordered", order.calls(), "rc", rc)
sys.exit(int(rc))
