#!/bin/bash
# try_mutant.sh <dir with patch.diff [demo.py]> <prop> [<prop>...]
# Applies the patch to a scratch worktree of /repo (under /dev/shm, removed afterwards), runs the repository's suite
# and the demonstration, then the quick check of each property with VERIF_REPO pointing at the scratch tree.
D=$(realpath "$1"); shift
W=/dev/shm/mut_$$
git -C /repo worktree add -q --detach $W HEAD || exit 3
trap 'git -C /repo worktree remove --force $W >/dev/null 2>&1; rm -rf $W' EXIT
if ! git -C $W apply "$D/patch.diff"; then echo "RESULT patch does not apply"; exit 3; fi
SUITE=$(cd $W && timeout 900 /venv/bin/python -m pytest -q -p no:cacheprovider --timeout=900 pyformlang 2>&1 | tail -1)
echo "suite(with patch): $SUITE"
if [ -f "$D/demo.py" ]; then
  (cd /repo && timeout 300 /venv/bin/python "$D/demo.py" >/dev/null 2>&1); echo "demo on clean tree: exit $?"
  (cd $W && timeout 300 /venv/bin/python "$D/demo.py" >/dev/null 2>&1); echo "demo on patched tree: exit $?"
fi
for P in "$@"; do
  OUT=$(cd /verif && VERIF_REPO=$W timeout 1800 /venv/bin/python run.py $P --tier quick --no-evidence 2>&1)
  RC=$?
  echo "check $P: exit $RC  $(echo "$OUT" | grep -c '^VIOLATION') VIOLATION lines; $(echo "$OUT" | grep 'tier=' | head -1)"
  echo "$OUT" | grep -A1 '^VIOLATION' | head -4 | cut -c1-400
done
