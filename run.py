#!/venv/bin/python
"""Entry point of the verification machinery.

  run.py <Cxx> [--tier quick|thorough] [--seed N]     run one property check
  run.py <Cxx> --replay <path>                         re-execute one recorded violation
  run.py selftest                                      oracle cross-checks, order-ownership proof
  run.py all [--tier quick]                            every claimed property, sequentially

Exit codes: 0 = property held on everything explored (known findings printed),
1 = violation (``VIOLATION property=<id> replay=<path>`` lines), 2 = harness error.
"""
import argparse
import importlib
import json
import os
import sys
import time

HERE = os.path.dirname(os.path.abspath(__file__))
sys.path.insert(0, HERE)


def _pin_hashseed(argv):
    want = os.environ.get("VERIF_HASHSEED", "0")
    if os.environ.get("PYTHONHASHSEED") != want:
        env = dict(os.environ)
        env["PYTHONHASHSEED"] = want
        os.execve(sys.executable, [sys.executable, os.path.abspath(__file__)] + argv, env)


def load_prop(pid):
    from vt import loader
    loader.load_all()
    mod = importlib.import_module("vt.props." + pid.lower())
    return mod.PROP


def load_known():
    path = os.path.join(HERE, "known_findings.json")
    if not os.path.exists(path):
        return []
    with open(path) as f:
        return json.load(f).get("findings", [])


def attribute(prop, fail, known):
    """Index of the open known finding this failure belongs to, else None."""
    from vt.engine import case_hash
    for i, k in enumerate(known):
        if k.get("status") != "open" or k["property"] != prop.ID:
            continue
        if fail["clause"] not in k["clauses"]:
            continue
        scope = prop.SCOPES.get(k["scope"])
        if scope is None or not scope(fail):
            continue
        fs = k.get("failing_set")
        if fs is not None and case_hash(fail["case"]) not in fs:
            continue
        return i
    return None


def write_replay(prop, fail, tier, seed):
    from vt.engine import case_hash
    d = os.path.join(HERE, "replays", prop.ID)
    os.makedirs(d, exist_ok=True)
    h = case_hash([fail["clause"], fail["case"]])
    path = os.path.join(d, h + ".json")
    rec = {"property": prop.ID, "clause": fail["clause"], "layer": fail["layer"], "case": fail["case"],
           "policies": fail["policies"], "detail": fail["detail"], "tier": tier, "seed": seed,
           "hashseed": os.environ.get("PYTHONHASHSEED"),
           "script": prop.script(fail["case"]) if hasattr(prop, "script") else None,
           "replay": "/venv/bin/python run.py %s --replay %s" % (prop.ID, path)}
    with open(path, "w") as f:
        json.dump(rec, f, indent=1, default=str)
    return path


def run_check(pid, tier, seed, args):
    from vt import engine, loader, order
    prop = load_prop(pid)
    t0 = time.time()
    res = engine.explore(prop, tier, seed,
                         only_policies=args.policies.split(",") if args.policies else None,
                         only_layers=args.layers.split(";") if args.layers else None,
                         budget_s=args.budget)
    if args.dump_fails:
        with open(args.dump_fails, "w") as f:
            json.dump(res["fails"], f, default=str)
    # thorough tier: the natural-order pass is repeated under other hash seeds (string-named inputs iterate
    # differently); sub-processes, because PYTHONHASHSEED is fixed at interpreter start
    extra_seeds = []
    if tier == "thorough" and not args.policies and os.environ.get("VERIF_EXTRA_HASHSEEDS", "1,2"):
        import subprocess
        import tempfile
        for hs in os.environ.get("VERIF_EXTRA_HASHSEEDS", "1,2").split(","):
            with tempfile.NamedTemporaryFile(suffix=".json", dir="/dev/shm") as tf:
                env = dict(os.environ, VERIF_HASHSEED=hs, PYTHONHASHSEED=hs)
                cmd = [sys.executable, os.path.abspath(__file__), pid, "--tier", "quick", "--seed", str(seed),
                       "--policies", "natural", "--no-evidence", "--dump-fails", tf.name]
                subprocess.run(cmd, env=env, stdout=subprocess.DEVNULL, stderr=subprocess.DEVNULL, timeout=7200)
                try:
                    extra = json.load(open(tf.name))
                except Exception:
                    extra = None
            if extra is None:
                res["harness_errors"].append({"case": None, "error": "natural pass under PYTHONHASHSEED=%s did not finish" % hs})
            else:
                for f in extra:
                    f["policies"] = ["%s#hashseed%s" % (p, hs) for p in f["policies"]]
                res["fails"].extend(extra)
                extra_seeds.append(int(hs))
    known = load_known()
    unlisted, attributed = [], {}
    for f in res["fails"]:
        i = attribute(prop, f, known)
        if i is None:
            unlisted.append(f)
        else:
            attributed.setdefault(i, []).append(f)
    # every open known finding of this property is announced (its witness is part of the enumeration;
    # the count says how many explored cases fell into it on this run)
    for i, k in enumerate(known):
        if k.get("status") == "open" and k["property"] == prop.ID:
            print("KNOWN-FINDING: property=%s %s [cases on this run: %d]" % (
                prop.ID, k["what"], len(attributed.get(i, []))))
    # violations: first per clause first
    printed, per_clause = 0, {}
    paths = []
    for f in unlisted:
        per_clause.setdefault(f["clause"], []).append(f)
    for clause, fs in sorted(per_clause.items()):
        for f in fs[:3]:
            path = write_replay(prop, f, tier, seed)
            paths.append(path)
            if printed < 20:
                print("VIOLATION property=%s replay=%s" % (prop.ID, path))
                print("  clause=%s layer=%s policies=%s case=%s detail=%s" % (
                    f["clause"], f["layer"], f["policies"][:3], json.dumps(f["case"], default=str)[:300],
                    json.dumps(f["detail"], default=str)[:400]))
                printed += 1
    for e in res["harness_errors"][:5]:
        print("HARNESS-ERROR property=%s case=%s\n%s" % (prop.ID, json.dumps(e["case"], default=str)[:300], e["error"]))
    states = sum(a["states"] for a in res["layers"])
    if res.get("notes", {}).get("history_states"):
        states = res["notes"]["history_states"]      # C19: distinct object-graph fingerprints reached by the searches
    execs = sum(a["execs"] for a in res["layers"])
    ops = sum(a["ops"] for a in res["layers"])
    nontriv = sum(a["nontrivial"] for a in res["layers"])
    generated = sum(a["generated"] for a in res["layers"])
    vacuous = states > 0 and res["outcomes"] < 2
    ev = {
        "property_id": prop.ID, "tier": tier, "seed": seed, "level": "model_checking",
        "coverage": {
            "states": states, "transitions": ops, "traces_validated_against_impl": execs,
            "samples": res["samples"][:6] or ["<none>"],
            "evaluations": generated, "distinct_nontrivial": nontriv,
            "rule": getattr(prop, "RULE", ""),
            "exhaustive": (not res["capped"]) and all(a["complete"] for a in res["layers"]),
            "layers": res["layers"], "distinct_outcomes": res["outcomes"],
            "clauses": getattr(prop, "CLAUSES", []),
            "violations_per_clause": {c: len(v) for c, v in per_clause.items()},
            "violations_per_clause_layer": _count(unlisted),
            "known_finding_cases": {known[i]["id"]: len(v) for i, v in attributed.items()},
            "hashseed": os.environ.get("PYTHONHASHSEED"),
            "extra_natural_passes_under_hashseeds": extra_seeds,
            "order_hook": dict(loader.STATS), "repo": loader.REPO,
            "bounds": getattr(prop, "BOUNDS", ""),
            "notes": res.get("notes", {}),
        },
        "assumptions": getattr(prop, "ASSUMPTIONS", []),
        "wall_s": round(time.time() - t0, 2),
        "violations": len(unlisted),
    }
    if not args.no_evidence:
        os.makedirs(os.path.join(HERE, "evidence"), exist_ok=True)
        with open(os.path.join(HERE, "evidence", prop.ID + ".json"), "w") as f:
            json.dump(ev, f, indent=1, default=str)
    print("%s tier=%s seed=%d states=%d executions=%d transitions=%d outcomes=%d violations=%d known=%d wall=%.1fs%s" % (
        prop.ID, tier, seed, states, execs, ops, res["outcomes"], len(unlisted),
        sum(len(v) for v in attributed.values()), time.time() - t0, " CAPPED" if res["capped"] else ""))
    if res.get("notes"):
        print("  notes: %s" % json.dumps(res["notes"]))
    for a in res["layers"]:
        print("  layer %-34s generated=%-8d states=%-8d dups=%-8d skipped=%-7d execs=%-8d %s" % (
            a["name"], a["generated"], a["states"], a["dups"], a["skipped"], a["execs"],
            "complete" if a["complete"] else "INCOMPLETE"))
    if unlisted:
        return 1
    if res["harness_errors"] or vacuous:
        if vacuous:
            print("HARNESS-ERROR vacuous run: a single distinct outcome")
        return 2
    return 0


def _count(fails):
    out = {}
    for f in fails:
        k = f["clause"] + " @ " + f["layer"]
        out[k] = out.get(k, 0) + 1
    return out


def run_replay(pid, path):
    from vt import engine, order
    import signal
    prop = load_prop(pid)
    with open(path) as f:
        rec = json.load(f)
    case = rec["case"]
    case = prop.thaw(case) if hasattr(prop, "thaw") else case
    signal.signal(signal.SIGALRM, engine._on_alarm)
    obs = []
    for rnd in range(2):
        got = []
        for pol in rec["policies"][:2]:
            order.set_policy(None)
            ref = prop.reference(case)
            salt, _, variant = pol.partition("@")
            order.set_policy(salt)
            ctx = engine.Ctx(prop.HORIZON)
            ctx.variant = variant
            prop.check(case, ref, ctx)
            order.set_policy(None)
            got.append((pol, [(c, d) for c, d in ctx.fails if c == rec["clause"]]))
        obs.append(json.dumps(got, default=str, sort_keys=True))
    if obs[0] != obs[1]:
        print("HARNESS-ERROR replay diverged between two executions")
        return 2
    got = json.loads(obs[0])
    print(json.dumps({"case": rec["case"], "script": rec.get("script"), "observed": got}, indent=1, default=str))
    if any(fs for _, fs in got):
        print("VIOLATION property=%s replay=%s" % (pid, path))
        return 1
    print("not reproduced on the current tree")
    return 0


def main():
    ap = argparse.ArgumentParser()
    ap.add_argument("what")
    ap.add_argument("--tier", default=os.environ.get("VERIF_TIER", "quick"))
    ap.add_argument("--seed", type=int, default=int(os.environ.get("VERIF_SEED", "0") or 0))
    ap.add_argument("--replay")
    ap.add_argument("--policies")
    ap.add_argument("--layers")
    ap.add_argument("--budget", type=float)
    ap.add_argument("--no-evidence", action="store_true")
    ap.add_argument("--dump-fails")
    args = ap.parse_args()
    if args.tier not in ("quick", "thorough"):
        args.tier = "quick"
    _pin_hashseed(sys.argv[1:])
    os.chdir(HERE)
    if args.what == "selftest":
        from vt import selftest
        sys.exit(selftest.main())
    if args.what == "all":
        with open(os.path.join(HERE, "MANIFEST.json")) as f:
            ids = [c["property_id"] for c in json.load(f)["checks"]]
        rc = 0
        for pid in ids:
            r = os.system("%s %s %s --tier %s --seed %d" % (sys.executable, os.path.abspath(__file__), pid, args.tier, args.seed))
            rc = max(rc, r >> 8)
        sys.exit(rc)
    pid = args.what.upper()
    if args.replay:
        sys.exit(run_replay(pid, args.replay))
    sys.exit(run_check(pid, args.tier, args.seed, args))


if __name__ == "__main__":
    main()
